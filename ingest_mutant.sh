#!/bin/bash
# usage: ingest_mutant.sh <PROP> <mN> [worktree]   copies <worktree>/out/mN (default /tmp/mut-PROP) into /verif/seeded/PROP-mN and confirms it
P="$1"; M="$2"; SRC="${3:-/tmp/mut-$P}"/out/$M; DST=/verif/seeded/$P-$M
mkdir -p "$DST"; cp "$SRC"/patch.diff "$DST"/ 2>/dev/null; cp "$SRC"/demo.rs "$DST"/ 2>/dev/null; cp "$SRC"/demo.diff "$DST"/ 2>/dev/null; cp "$SRC"/meta.json "$DST"/agent_meta.json 2>/dev/null
/verif/confirm_mutant.sh "$DST" "$P$M" > "$DST/confirm.txt" 2>&1
tail -1 "$DST/confirm.txt"
