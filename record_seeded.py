#!/usr/bin/env python3
"""For every seeded change under /verif/seeded/<prop>-mN: apply it to /repo, run that property's quick check,
undo it, and write meta.json (what it breaks, what it needs, confirmation, which check caught it with what)."""
import json, os, re, subprocess, sys, glob
only = sys.argv[1:]
# VERIF_RUN_HOME: run the checks out of a copy of /verif (own build directory, evidence and replays), so that
# work in /verif itself can go on meanwhile; meta.json always goes to /verif/seeded
RUN = os.environ.get('VERIF_RUN_HOME', '/verif')
for d in sorted(glob.glob('/verif/seeded/*-m*')):
    name = os.path.basename(d)
    if only and name not in only: continue
    prop = name.split('-')[0]
    agent = {}
    try: agent = json.load(open(d + '/agent_meta.json'))
    except Exception: pass
    if agent.get('property', prop) != prop and re.match(r'^C\d\d$', str(agent.get('property'))):
        prop = agent['property']
    confirm = open(d + '/confirm.txt').read().strip().splitlines()[-1] if os.path.exists(d + '/confirm.txt') else ''
    W = '/tmp/verif-mutest-repo'
    head = subprocess.run(['git', '-C', '/repo', 'rev-parse', 'HEAD'], capture_output=True, text=True).stdout.strip()
    if not os.path.isdir(W): subprocess.run(['git', '-C', '/repo', 'worktree', 'add', '-q', '--detach', W, head], check=True)
    subprocess.run(['git', '-C', W, 'checkout', '-q', '--', '.'], check=True)
    subprocess.run(['git', '-C', W, 'checkout', '-q', '--detach', head], check=True)
    ap = subprocess.run(['git', '-C', W, 'apply', d + '/patch.diff'], capture_output=True, text=True)
    if ap.returncode != 0:
        # /repo has moved on since the change was delivered (fixes, hooks): fall back to a 3-way merge
        subprocess.run(['git', '-C', W, 'checkout', '-q', '--', '.'], check=True)
        ap = subprocess.run(['git', '-C', W, 'apply', '--3way', d + '/patch.diff'], capture_output=True, text=True)
        if ap.returncode != 0:
            subprocess.run(['git', '-C', W, 'checkout', '-q', '--', '.'])
            subprocess.run(['git', '-C', W, 'reset', '-q', '--hard'])
            print(name, prop, 'PATCH-DOES-NOT-APPLY', ap.stderr.strip().splitlines()[-1:] , flush=True)
            continue
        subprocess.run(['git', '-C', W, 'reset', '-q'])  # 3way stages the result: unstage, keep the working tree
    env = dict(os.environ, VERIF_MIN_BUDGET_S='10', VERIF_REPO=W)
    ev = f'{RUN}/evidence/{prop}.json'
    saved = open(ev).read() if os.path.exists(ev) else None
    p = subprocess.run(['./check', prop, 'quick'], cwd=RUN, capture_output=True, text=True, env=env)
    subprocess.run(['git', '-C', W, 'checkout', '-q', '--', '.'], check=True)
    if saved is not None: open(ev, 'w').write(saved)  # evidence files describe the unchanged tree
    sigs = re.findall(r'signature: (\S+) \((\d+) run', p.stdout)
    summary = [l for l in p.stdout.splitlines() if l.startswith('check ')]
    meta = {
        'property': prop,
        'what_breaks': agent.get('what_breaks', ''),
        'needs_to_manifest': agent.get('needs_to_manifest', ''),
        'files_changed': agent.get('files_changed', []),
        'origin': 'independent sub-agent given only the property text and a scratch worktree',
        'confirmed_in_scratch_worktree': confirm,
        'detected': p.returncode == 1,
        'detected_by': {'command': f'./check {prop} quick', 'exit': p.returncode, 'signatures': {s: int(n) for s, n in sigs}, 'summary': summary[-1] if summary else ''},
        'ran': [f'/verif/confirm_mutant.sh {d} {name}  (apply in a scratch worktree; cargo test --workspace x2; demo with/without)', f'/verif/mutest.sh {d}/patch.diff {prop}   (applies the patch to a scratch worktree of /repo, runs ./check {prop} quick against it, undoes it)'],
    }
    json.dump(meta, open(d + '/meta.json', 'w'), indent=1)
    print(name, prop, 'detected' if meta['detected'] else 'MISSED', dict(list(meta['detected_by']['signatures'].items())[:3]), flush=True)
    # replays produced for seeded changes are not findings on the real tree
    for f in glob.glob(f'{RUN}/replays/*.json'): os.remove(f)
