import sys
pid=sys.argv[1]
avoid=sys.argv[2]
prop=open('/tmp/prop-%s.txt'%pid).read()
print(f"""You are helping evaluate verification tooling for a Rust library. Work ONLY inside the git worktree /tmp/mut-{pid} (a scratch checkout of the library kaist-cp/circ: a concurrent reference-counted pointer library, Rc/AtomicRc/Weak/Snapshot, with immediate recursive destruction built on a modified crossbeam-style epoch-based reclamation in src/ebr_impl). Do not read or touch anything under /verif or /repo. There is no network; build with `cargo build --offline` / `cargo test --offline` (run from /tmp/mut-{pid}; the test suite has 36 tests and takes ~15 s). The directory /tmp/mut-{pid}/out may already contain m1 and m2 from an earlier session: leave them alone and do not read them.

The property under study:
---
{prop}
---

Your task: produce TWO MORE different, realistic code changes ("mutants") to the library source (src/**) that each BREAK this property while (a) still compiling, and (b) still passing the entire existing test suite (`cargo test --workspace --offline`, all 36 tests; run it at least twice since the tests are concurrent). Name them m3 and m4. They must use mechanisms / code sites different from each other AND different from these already-studied ones (do not deliver variations of them): {avoid}

Prefer subtle bugs a real developer could introduce, and strongly prefer ones that need something specific to manifest — a particular interleaving of two or three threads, a thread delayed at one particular point for several epochs, a multi-step sequence of operations, a rarely used API (tags, finalize, abort, swap, compare_exchange_tag, reactivate_after, new_many_iter, weak_many, AtomicWeak), an unusual argument, an epoch-counter alignment, or two cooperating code sites that each look fine alone — NOT ones that any ordinary use would expose at once. Do not modify src/verif.rs or src/ebr_impl/verif_shim.rs, do not touch or remove `#[cfg(feature = "circ_verif")]` lines (you may keep them next to code you change), and do not change existing tests.

For each mutant i in {{3,4}} create a directory /tmp/mut-{pid}/out/m<i>/ containing:
1. patch.diff — `git diff` of the source change only (relative to HEAD; must apply with `git apply` at the repo root).
2. a demonstration that FAILS with the mutant applied and PASSES on the unmodified tree: preferably a self-contained Rust integration test file demo.rs (to be copied into tests/ of the repo); if the property concerns crate-private components, the demo may instead be a unit test added inside the relevant src file under #[cfg(test)] — then provide it as demo.diff (a separate patch adding only the test). Detect violations through Drop flags / atomic counters / recorded orders in your own payload and closures (or a counting #[global_allocator] for memory-block questions), not by reading freed memory. The demo may use threads, barriers, channels, thread::sleep to force an interleaving, and repeated `let g = circ::cs(); g.flush(); drop(g);` rounds to drive epochs and collection. It should be deterministic or nearly so (state how often it fails out of 20 runs with the mutant).
3. meta.json — {{"property": "{pid}", "what_breaks": "...", "needs_to_manifest": "...", "files_changed": [...], "ran": ["exact commands you ran and their outcome"]}}.

Verify everything yourself: with the mutant applied, `cargo test --workspace --offline` passes (the 36 existing tests) and the demo fails; with the mutant reverted (`git checkout -- src`), the demo passes. Leave the worktree's src/ UNMODIFIED at the end (git checkout -- src) and remove any demo file you copied into tests/. If after a serious effort you can only produce one valid mutant, deliver that one and explain. Report briefly what the mutants are and your verification results.""")

# Usage (as in rounds 2-12): python3 mutant_prompt.py <property id> "<list of mechanisms already studied>"
# with /tmp/prop-<id>.txt holding the property's title, statement, quantifier, why-tests-cannot and anchors
# (nothing else from /verif), and /tmp/mut-<id> a scratch worktree of /repo (git -C /repo worktree add --detach).
# Later rounds added to the text: the numbered list of changes already delivered for the property (first 200
# characters of each what_breaks), "never use pattern-based kills", a time limit, and "break the property as it
# is STATED". Deliveries are confirmed with /verif/confirm_mutant.sh and ingested with /verif/ingest_mutant.sh.
