#!/bin/sh
# usage: mutfam.sh <patch.diff> <property> <family> <runs>  -- run one family against a seeded change (scratch worktree)
set -u
P="$1"; PROP="$2"; FAM="$3"; N="${4:-2000}"; W="${VERIF_MUT_W:-/tmp/verif-mutest-repo}"
HEAD=$(git -C /repo rev-parse HEAD)
[ -d "$W" ] || git -C /repo worktree add -q --detach "$W" "$HEAD" || exit 2
git -C "$W" checkout -q -- . && git -C "$W" checkout -q --detach "$HEAD" || exit 2
git -C "$W" apply "$P" || exit 2
SIM=/verif/target/sim-alt; rm -rf "$SIM"; mkdir -p "$SIM"
sed "s#path = \"/repo\"#path = \"$W\"#" /verif/sim/Cargo.toml >"$SIM/Cargo.toml"; cp /verif/sim/Cargo.lock "$SIM/"; ln -s /verif/sim/src "$SIM/src"
(cd "$SIM" && CARGO_TARGET_DIR=/verif/target CARGO_NET_OFFLINE=true cargo build --release --offline 2>&1 | grep -E "^error" -A5)
VERIF_HOME=/verif /verif/target/release/circ-sim fam "$PROP" "$FAM" 1 "$N" 2>&1 | tail -3 | cut -c1-600
git -C "$W" checkout -q -- .
# rebuild the normal binary
(cd /verif/sim && CARGO_TARGET_DIR=/verif/target CARGO_NET_OFFLINE=true cargo build --release --offline >/dev/null 2>&1)
