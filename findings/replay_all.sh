#!/bin/sh
# Replays every pre-fix finding twice: against its pre-fix tree (hooks only, commit 1043068, or the
# commit before its own fix for findings made later: F13 -> 44353dd, F14 -> 27c644f; each must reproduce its
# recorded violation) and against /repo as it is now (each must be clean).
W=/tmp/verif-prefix-repo
[ -d "$W" ] || git -C /repo worktree add -q --detach "$W" 1043068 || exit 2
for f in /verif/findings/*.replay.json; do
    case "$(basename "$f")" in F13*) PRE=44353dd ;; F14*) PRE=27c644f ;; *) PRE=1043068 ;; esac
    git -C "$W" checkout -q --detach "$PRE" || exit 2
    A=$(VERIF_REPO=$W /verif/check replay "$f" 2>/dev/null | grep -E "^VIOLATION|replay is clean|diverged" | head -1 | cut -c1-40)
    B=$(/verif/check replay "$f" 2>/dev/null | grep -E "^VIOLATION|replay is clean|diverged" | head -1 | cut -c1-40)
    echo "$(basename "$f"): pre-fix tree: ${A:-?} | current tree: ${B:-?}"
done
git -C /repo worktree remove --force "$W"
