#!/bin/sh
# Replays every kept pre-fix finding twice with today's simulator: against /repo's HEAD with the
# finding's own fix commit(s) reverted in a scratch worktree (each must reproduce its recorded
# violation) and against /repo as it is now (each must be clean).
# findings/historical/ holds replay files recorded on the pre-fix tree 1043068 with the simulator
# and hooks of that time (F1, F2, F6, F9, F9b, F11): their fixes cannot be reverted alone any more
# (later fixes touch the same lines) and that tree lacks hooks the present simulator needs, so they
# are kept as records only; each was shown to reproduce there and to be clean after its fix when it
# was recorded (DESIGN.md section 7).
W=/tmp/verif-prefix-repo
git -C /repo worktree remove --force "$W" 2>/dev/null
git -C /repo worktree add -q --detach "$W" HEAD || exit 2
for f in /verif/findings/*.replay.json; do
    case "$(basename "$f")" in
        F3-*) FIX="187f1f1" ;;
        F5-*) FIX="b1b08c8" ;;
        F8-*) FIX="7c565b0" ;;
        F10-*) FIX="fcef33a" ;;
        F13*) FIX="f3476ca 2b266d3" ;;
        F14-*) FIX="f3476ca" ;;
        *) FIX="" ;;
    esac
    git -C "$W" reset -q --hard HEAD
    A="(no fix commit known)"
    if [ -n "$FIX" ]; then
        if git -C "$W" revert --no-commit $FIX >/dev/null 2>&1; then
            A=$(VERIF_REPO=$W /verif/check replay "$f" 2>/dev/null | grep -E "^VIOLATION|replay is clean|diverged" | head -1 | cut -c1-40)
        else
            git -C "$W" revert --abort 2>/dev/null; A="revert conflicts"
        fi
    fi
    git -C "$W" reset -q --hard HEAD
    B=$(/verif/check replay "$f" 2>/dev/null | grep -E "^VIOLATION|replay is clean|diverged" | head -1 | cut -c1-40)
    echo "$(basename "$f"): fix reverted ($FIX): ${A:-?} | current tree: ${B:-?}"
done
git -C /repo worktree remove --force "$W"
