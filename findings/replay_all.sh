#!/bin/sh
# Replays every pre-fix finding twice: against the pre-fix tree (hooks only, commit 1043068: each
# must reproduce its recorded violation) and against /repo as it is now (each must be clean).
W=/tmp/verif-prefix-repo
[ -d "$W" ] || git -C /repo worktree add -q --detach "$W" 1043068 || exit 2
for f in /verif/findings/*.replay.json; do
    A=$(VERIF_REPO=$W /verif/check replay "$f" 2>/dev/null | grep -E "^VIOLATION|replay is clean|diverged" | head -1 | cut -c1-40)
    B=$(/verif/check replay "$f" 2>/dev/null | grep -E "^VIOLATION|replay is clean|diverged" | head -1 | cut -c1-40)
    echo "$(basename "$f"): pre-fix tree: ${A:-?} | current tree: ${B:-?}"
done
git -C /repo worktree remove --force "$W"
