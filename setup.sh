#!/bin/sh
# Build the simulator offline from files on disk, then self-test it on a small sample
# (every family, each seed twice: identical event hashes).
set -eu
HERE="$(cd "$(dirname "$0")" && pwd)"
export VERIF_HOME="$HERE" CARGO_TARGET_DIR="$HERE/target" CARGO_NET_OFFLINE=true
mkdir -p "$HERE/target" "$HERE/evidence" "$HERE/replays"
cd "$HERE/sim"
cargo build --release --offline 2>&1 | tail -n 3
"$HERE/target/release/circ-sim" selftest 8
