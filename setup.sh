#!/bin/sh
# Build the simulator offline from files on disk, then self-test it on a small sample.
set -eu
mkdir -p /verif/target /verif/evidence /verif/replays
cd /verif/sim
CARGO_NET_OFFLINE=true cargo build --release --offline 2>&1 | tail -n 3
/verif/target/release/circ-sim selftest
