#!/usr/bin/env python3
"""Print the markdown table of DESIGN.md section 11 from /verif/seeded/*/meta.json."""
import json, glob, os, re
rows = []
for d in sorted(glob.glob('/verif/seeded/*-m*')):
    name = os.path.basename(d)
    try: m = json.load(open(d + '/meta.json'))
    except Exception: continue
    what = re.sub(r'\s+', ' ', m.get('what_breaks', '')).replace('|', '/')
    if len(what) > 170: what = what[:170] + '...'
    sigs = m['detected_by']['signatures']
    top = sorted(sigs.items(), key=lambda kv: -kv[1])[:2]
    caught = '; '.join(f'`{s}` ({n})' for s, n in top) if m['detected'] else '**missed**'
    runs = re.search(r'(\d+) runs', m['detected_by'].get('summary', ''))
    rows.append(f"| {name} | {m['property']} | {what} | {caught} | {runs.group(1) if runs else ''} |")
print('| id | property | change | caught as (runs) | of runs |')
print('|---|---|---|---|---|')
print('\n'.join(rows))
