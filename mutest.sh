#!/bin/sh
# usage: mutest.sh <patch.diff> <property> [tier]   -- apply a seeded change to /repo, run the check, undo it
set -u
P="$1"; PROP="$2"; TIER="${3:-quick}"
cd /repo || exit 2
if ! git diff --quiet; then echo "repo working tree not clean" >&2; exit 2; fi
git apply "$P" || { echo "patch does not apply" >&2; exit 2; }
# evidence files in /verif describe the unchanged tree: keep them out of seeded runs
mkdir -p /verif/target/evidence-backup; cp -f /verif/evidence/"$PROP".json /verif/target/evidence-backup/ 2>/dev/null
cd /verif && ./check "$PROP" "$TIER"; RC=$?
git -C /repo checkout -- . 
cp -f /verif/target/evidence-backup/"$PROP".json /verif/evidence/ 2>/dev/null; rm -f /verif/replays/*.json
echo "exit=$RC"
exit $RC
