#!/bin/sh
# usage: mutest.sh <patch.diff> <property> [tier]
# Apply a seeded change to a scratch worktree of /repo (never to /repo itself), run the property's
# check against that worktree, undo the change. Evidence files in /verif are left untouched.
set -u
P="$1"; PROP="$2"; TIER="${3:-quick}"; W="${VERIF_MUT_W:-/tmp/verif-mutest-repo}"
HEAD=$(git -C /repo rev-parse HEAD)
if [ ! -d "$W" ]; then git -C /repo worktree add -q --detach "$W" "$HEAD" || exit 2; fi
git -C "$W" checkout -q -- . && git -C "$W" checkout -q --detach "$HEAD" || exit 2
git -C "$W" apply "$P" || { echo "patch does not apply" >&2; exit 2; }
mkdir -p /verif/target/evidence-backup; cp -f /verif/evidence/"$PROP".json /verif/target/evidence-backup/ 2>/dev/null
cd /verif && VERIF_REPO="$W" ./check "$PROP" "$TIER"; RC=$?
git -C "$W" checkout -q -- .
cp -f /verif/target/evidence-backup/"$PROP".json /verif/evidence/ 2>/dev/null; rm -f /verif/replays/*.json
echo "exit=$RC"
exit $RC
