#!/bin/sh
# usage: mutest.sh <patch.diff> <property> [tier]   -- apply a seeded change to /repo, run the check, undo it
set -u
P="$1"; PROP="$2"; TIER="${3:-quick}"
cd /repo || exit 2
if ! git diff --quiet; then echo "repo working tree not clean" >&2; exit 2; fi
git apply "$P" || { echo "patch does not apply" >&2; exit 2; }
cd /verif && ./check "$PROP" "$TIER"; RC=$?
git -C /repo checkout -- . 
echo "exit=$RC"
exit $RC
