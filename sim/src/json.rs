//! Minimal JSON value, writer and parser (no external dependencies; deterministic output).

use std::collections::BTreeMap;
use std::fmt::Write;

#[derive(Clone, Debug, PartialEq)]
pub enum J {
    Null,
    Bool(bool),
    Int(i64),
    Num(f64),
    Str(String),
    Arr(Vec<J>),
    Obj(BTreeMap<String, J>),
}

impl J {
    pub fn obj() -> J {
        J::Obj(BTreeMap::new())
    }
    pub fn set(mut self, k: &str, v: impl Into<J>) -> J {
        if let J::Obj(m) = &mut self {
            m.insert(k.to_string(), v.into());
        }
        self
    }
    pub fn put(&mut self, k: &str, v: impl Into<J>) {
        if let J::Obj(m) = self {
            m.insert(k.to_string(), v.into());
        }
    }
    pub fn get(&self, k: &str) -> Option<&J> {
        match self {
            J::Obj(m) => m.get(k),
            _ => None,
        }
    }
    pub fn as_i64(&self) -> Option<i64> {
        match self {
            J::Int(i) => Some(*i),
            J::Num(f) => Some(*f as i64),
            _ => None,
        }
    }
    pub fn as_u64(&self) -> Option<u64> {
        self.as_i64().map(|x| x as u64)
    }
    pub fn as_f64(&self) -> Option<f64> {
        match self {
            J::Int(i) => Some(*i as f64),
            J::Num(f) => Some(*f),
            _ => None,
        }
    }
    pub fn as_str(&self) -> Option<&str> {
        match self {
            J::Str(s) => Some(s),
            _ => None,
        }
    }
    pub fn as_bool(&self) -> Option<bool> {
        match self {
            J::Bool(b) => Some(*b),
            _ => None,
        }
    }
    pub fn as_arr(&self) -> Option<&Vec<J>> {
        match self {
            J::Arr(a) => Some(a),
            _ => None,
        }
    }
    pub fn geti(&self, k: &str) -> i64 {
        self.get(k).and_then(|x| x.as_i64()).unwrap_or(0)
    }
    pub fn getu(&self, k: &str) -> u64 {
        self.geti(k) as u64
    }
    pub fn gets(&self, k: &str) -> &str {
        self.get(k).and_then(|x| x.as_str()).unwrap_or("")
    }
    pub fn getb(&self, k: &str) -> bool {
        self.get(k).and_then(|x| x.as_bool()).unwrap_or(false)
    }
    pub fn geta(&self, k: &str) -> &[J] {
        self.get(k).and_then(|x| x.as_arr()).map(|v| &v[..]).unwrap_or(&[])
    }

    pub fn write(&self, out: &mut String) {
        match self {
            J::Null => out.push_str("null"),
            J::Bool(b) => out.push_str(if *b { "true" } else { "false" }),
            J::Int(i) => {
                let _ = write!(out, "{}", i);
            }
            J::Num(f) => {
                if f.is_finite() {
                    let _ = write!(out, "{}", f);
                    if f.fract() == 0.0 && !out.ends_with(|c: char| c == 'e' || c == '.') && f.abs() < 1e15 {
                        // keep it a JSON number that reads back as float
                        if !format!("{}", f).contains('.') {
                            out.push_str(".0");
                        }
                    }
                } else {
                    out.push_str("null");
                }
            }
            J::Str(s) => write_str(s, out),
            J::Arr(a) => {
                out.push('[');
                for (i, x) in a.iter().enumerate() {
                    if i > 0 {
                        out.push(',');
                    }
                    x.write(out);
                }
                out.push(']');
            }
            J::Obj(m) => {
                out.push('{');
                for (i, (k, v)) in m.iter().enumerate() {
                    if i > 0 {
                        out.push(',');
                    }
                    write_str(k, out);
                    out.push(':');
                    v.write(out);
                }
                out.push('}');
            }
        }
    }
    pub fn to_string(&self) -> String {
        let mut s = String::new();
        self.write(&mut s);
        s
    }
    pub fn pretty(&self) -> String {
        let mut s = String::new();
        self.pretty_into(&mut s, 0);
        s.push('\n');
        s
    }
    fn pretty_into(&self, out: &mut String, ind: usize) {
        match self {
            J::Arr(a) if !a.is_empty() && a.iter().any(|x| matches!(x, J::Arr(_) | J::Obj(_))) => {
                out.push_str("[\n");
                for (i, x) in a.iter().enumerate() {
                    for _ in 0..ind + 1 {
                        out.push(' ');
                    }
                    x.pretty_into(out, ind + 1);
                    if i + 1 < a.len() {
                        out.push(',');
                    }
                    out.push('\n');
                }
                for _ in 0..ind {
                    out.push(' ');
                }
                out.push(']');
            }
            J::Obj(m) if !m.is_empty() => {
                out.push_str("{\n");
                let n = m.len();
                for (i, (k, v)) in m.iter().enumerate() {
                    for _ in 0..ind + 1 {
                        out.push(' ');
                    }
                    write_str(k, out);
                    out.push_str(": ");
                    v.pretty_into(out, ind + 1);
                    if i + 1 < n {
                        out.push(',');
                    }
                    out.push('\n');
                }
                for _ in 0..ind {
                    out.push(' ');
                }
                out.push('}');
            }
            _ => self.write(out),
        }
    }

    pub fn parse(s: &str) -> Result<J, String> {
        let b = s.as_bytes();
        let mut p = 0usize;
        let v = parse_value(b, &mut p)?;
        skip_ws(b, &mut p);
        if p != b.len() {
            return Err(format!("trailing data at {}", p));
        }
        Ok(v)
    }
}

fn write_str(s: &str, out: &mut String) {
    out.push('"');
    for c in s.chars() {
        match c {
            '"' => out.push_str("\\\""),
            '\\' => out.push_str("\\\\"),
            '\n' => out.push_str("\\n"),
            '\r' => out.push_str("\\r"),
            '\t' => out.push_str("\\t"),
            c if (c as u32) < 0x20 => {
                let _ = write!(out, "\\u{:04x}", c as u32);
            }
            c => out.push(c),
        }
    }
    out.push('"');
}

fn skip_ws(b: &[u8], p: &mut usize) {
    while *p < b.len() && matches!(b[*p], b' ' | b'\n' | b'\r' | b'\t') {
        *p += 1;
    }
}

fn parse_value(b: &[u8], p: &mut usize) -> Result<J, String> {
    skip_ws(b, p);
    if *p >= b.len() {
        return Err("eof".into());
    }
    match b[*p] {
        b'{' => {
            *p += 1;
            let mut m = BTreeMap::new();
            skip_ws(b, p);
            if *p < b.len() && b[*p] == b'}' {
                *p += 1;
                return Ok(J::Obj(m));
            }
            loop {
                skip_ws(b, p);
                let k = match parse_value(b, p)? {
                    J::Str(s) => s,
                    _ => return Err("key".into()),
                };
                skip_ws(b, p);
                if *p >= b.len() || b[*p] != b':' {
                    return Err(format!("expected : at {}", p));
                }
                *p += 1;
                let v = parse_value(b, p)?;
                m.insert(k, v);
                skip_ws(b, p);
                if *p < b.len() && b[*p] == b',' {
                    *p += 1;
                    continue;
                }
                if *p < b.len() && b[*p] == b'}' {
                    *p += 1;
                    return Ok(J::Obj(m));
                }
                return Err(format!("expected , or }} at {}", p));
            }
        }
        b'[' => {
            *p += 1;
            let mut a = Vec::new();
            skip_ws(b, p);
            if *p < b.len() && b[*p] == b']' {
                *p += 1;
                return Ok(J::Arr(a));
            }
            loop {
                a.push(parse_value(b, p)?);
                skip_ws(b, p);
                if *p < b.len() && b[*p] == b',' {
                    *p += 1;
                    continue;
                }
                if *p < b.len() && b[*p] == b']' {
                    *p += 1;
                    return Ok(J::Arr(a));
                }
                return Err(format!("expected , or ] at {}", p));
            }
        }
        b'"' => {
            *p += 1;
            let mut s = String::new();
            while *p < b.len() {
                match b[*p] {
                    b'"' => {
                        *p += 1;
                        return Ok(J::Str(s));
                    }
                    b'\\' => {
                        *p += 1;
                        if *p >= b.len() {
                            break;
                        }
                        match b[*p] {
                            b'n' => s.push('\n'),
                            b't' => s.push('\t'),
                            b'r' => s.push('\r'),
                            b'b' => s.push('\u{8}'),
                            b'f' => s.push('\u{c}'),
                            b'u' => {
                                let h = std::str::from_utf8(&b[*p + 1..*p + 5]).map_err(|e| e.to_string())?;
                                let c = u32::from_str_radix(h, 16).map_err(|e| e.to_string())?;
                                s.push(char::from_u32(c).unwrap_or('?'));
                                *p += 4;
                            }
                            c => s.push(c as char),
                        }
                        *p += 1;
                    }
                    _ => {
                        // copy a full utf8 char
                        let start = *p;
                        *p += 1;
                        while *p < b.len() && (b[*p] & 0xC0) == 0x80 {
                            *p += 1;
                        }
                        s.push_str(std::str::from_utf8(&b[start..*p]).map_err(|e| e.to_string())?);
                    }
                }
            }
            Err("unterminated string".into())
        }
        b't' if b[*p..].starts_with(b"true") => {
            *p += 4;
            Ok(J::Bool(true))
        }
        b'f' if b[*p..].starts_with(b"false") => {
            *p += 5;
            Ok(J::Bool(false))
        }
        b'n' if b[*p..].starts_with(b"null") => {
            *p += 4;
            Ok(J::Null)
        }
        _ => {
            let start = *p;
            let mut is_float = false;
            while *p < b.len() && matches!(b[*p], b'0'..=b'9' | b'-' | b'+' | b'.' | b'e' | b'E') {
                if matches!(b[*p], b'.' | b'e' | b'E') {
                    is_float = true;
                }
                *p += 1;
            }
            let t = std::str::from_utf8(&b[start..*p]).map_err(|e| e.to_string())?;
            if t.is_empty() {
                return Err(format!("unexpected byte at {}", start));
            }
            if is_float {
                t.parse::<f64>().map(J::Num).map_err(|e| e.to_string())
            } else {
                match t.parse::<i64>() {
                    Ok(i) => Ok(J::Int(i)),
                    Err(_) => t.parse::<f64>().map(J::Num).map_err(|e| e.to_string()),
                }
            }
        }
    }
}

impl From<i64> for J { fn from(x: i64) -> J { J::Int(x) } }
impl From<i32> for J { fn from(x: i32) -> J { J::Int(x as i64) } }
impl From<u32> for J { fn from(x: u32) -> J { J::Int(x as i64) } }
impl From<u64> for J { fn from(x: u64) -> J { J::Int(x as i64) } }
impl From<usize> for J { fn from(x: usize) -> J { J::Int(x as i64) } }
impl From<f64> for J { fn from(x: f64) -> J { J::Num(x) } }
impl From<bool> for J { fn from(x: bool) -> J { J::Bool(x) } }
impl From<&str> for J { fn from(x: &str) -> J { J::Str(x.to_string()) } }
impl From<String> for J { fn from(x: String) -> J { J::Str(x) } }
impl<T: Into<J>> From<Vec<T>> for J { fn from(x: Vec<T>) -> J { J::Arr(x.into_iter().map(|v| v.into()).collect()) } }
