//! Interpreter: executes a thread's op list against the real `circ` API and keeps the shadow
//! model in step (acquire at return, release at invocation).

use std::cell::RefCell;
use std::sync::atomic::Ordering::{self, SeqCst};

use circ::{AtomicRc, AtomicWeak, Guard, Rc, Snapshot, Weak, WeakSnapshot};

use crate::ops::*;
use crate::payload::{AlignMarker, Node};
use crate::sched::{sim, user_yield};
use crate::shadow::{read_state, read_word, shadow, Origin, Src, ST_DESTRUCTED};

pub struct World<M: AlignMarker> {
    pub roots: Vec<AtomicRc<Node<M>>>,
    pub wroots: Vec<AtomicWeak<Node<M>>>,
}

pub struct GuardSlot {
    pub g: Guard,
    pub uid: u64,
}

pub struct Ctx<M: AlignMarker> {
    pub tid: usize,
    pub rcs: Vec<Option<Rc<Node<M>>>>,
    pub weaks: Vec<Option<Weak<Node<M>>>>,
    pub guards: Vec<Option<GuardSlot>>,
    pub snaps: Vec<Option<(Snapshot<'static, Node<M>>, usize)>>,
    pub wsnaps: Vec<Option<(WeakSnapshot<'static, Node<M>>, usize)>>,
    /// open bulk iterators: (iterator, object id, shares not yet yielded)
    pub iters: Vec<Option<(circ::NewRcIter<Node<M>>, u32, usize)>>,
    pub world: &'static World<M>,
    pub local_addr: usize,
    pub in_tls: bool,
    pub check_pins: bool,
    /// epoch this thread's participant announced when its current critical section began
    pub cs_epoch: Option<usize>,
    /// op numbering offset (TLS destructor programs continue after the main program)
    pub op_base: u32,
}

/// payload panics injected by the workload carry this
pub struct InjectedPanic;

struct TlsBox(Option<Box<dyn FnOnce()>>);
impl Drop for TlsBox {
    fn drop(&mut self) {
        if let Some(f) = self.0.take() {
            f()
        }
    }
}
thread_local! {
    static TLSP: RefCell<TlsBox> = const { RefCell::new(TlsBox(None)) };
}

fn ext_snap<'a, T>(s: Snapshot<'a, T>) -> Snapshot<'static, T> {
    unsafe { std::mem::transmute(s) }
}
fn ext_wsnap<'a, T>(s: WeakSnapshot<'a, T>) -> WeakSnapshot<'static, T> {
    unsafe { std::mem::transmute(s) }
}

/// History record of a cell operation (for the linearizability checker).
#[derive(Clone, Debug)]
pub struct HistEv {
    pub tid: usize,
    pub cell: usize,
    pub weak_cell: bool,
    pub kind: K,
    pub weak_cas: bool,
    pub inv: u64,
    pub ret: u64,
    /// value passed in (store/swap/cas desired): (object id + 1 or 0 for null, tag)
    pub input: (u32, usize),
    /// expected (cas)
    pub expected: (u32, usize),
    pub ok: bool,
    /// value returned: load result / swap old / cas success old / cas failure current
    pub output: (u32, usize),
    /// cas failure: the `desired` handed back
    pub back: (u32, usize),
}

pub static mut HISTORY: Vec<HistEv> = Vec::new();

/// Memory orderings the workload passes to the cell operations (per-run knob; under the
/// simulator's sequentially consistent execution they must all behave alike):
/// 0 SeqCst everywhere, 1 Relaxed everywhere, 2 Acquire / Release / AcqRel, 3 a mixture.
pub static ORD_MODE: std::sync::atomic::AtomicU8 = std::sync::atomic::AtomicU8::new(0);
fn ord_load() -> Ordering {
    match ORD_MODE.load(Ordering::Relaxed) {
        1 => Ordering::Relaxed,
        2 | 3 => Ordering::Acquire,
        _ => SeqCst,
    }
}
fn ord_store() -> Ordering {
    match ORD_MODE.load(Ordering::Relaxed) {
        1 => Ordering::Relaxed,
        2 => Ordering::Release,
        _ => SeqCst,
    }
}
fn ord_rmw() -> Ordering {
    match ORD_MODE.load(Ordering::Relaxed) {
        1 => Ordering::Relaxed,
        2 => Ordering::AcqRel,
        3 => Ordering::Release,
        _ => SeqCst,
    }
}
fn ord_fail() -> Ordering {
    match ORD_MODE.load(Ordering::Relaxed) {
        1 | 3 => Ordering::Relaxed,
        2 => Ordering::Acquire,
        _ => SeqCst,
    }
}

#[allow(static_mut_refs)]
fn hist_push(h: HistEv) {
    unsafe { HISTORY.push(h) }
}

impl<M: AlignMarker> Ctx<M> {
    pub fn new(tid: usize, world: &'static World<M>) -> Box<Self> {
        Box::new(Ctx {
            tid,
            rcs: (0..NRC).map(|_| None).collect(),
            weaks: (0..NWEAK).map(|_| None).collect(),
            guards: (0..NGUARD).map(|_| None).collect(),
            snaps: (0..NSNAP).map(|_| None).collect(),
            wsnaps: (0..NWSNAP).map(|_| None).collect(),
            iters: (0..2).map(|_| None).collect(),
            world,
            local_addr: 0,
            in_tls: false,
            check_pins: true,
            cs_epoch: None,
            op_base: 0,
        })
    }

    fn val(&self, word: usize) -> (u32, usize) {
        let sh = shadow();
        (sh.obj_of_word(word).map(|o| o + 1).unwrap_or(0), word & sh.tag_mask)
    }

    fn guard_ref(&self, g: usize) -> Option<(&'static Guard, u64)> {
        self.guards.get(g)?.as_ref().map(|s| (unsafe { &*(&s.g as *const Guard) }, s.uid))
    }
    fn any_guard(&self) -> Option<usize> {
        (0..NGUARD).find(|&g| self.guards[g].is_some())
    }

    /// C01/C02: a dereference through a counted pointer or a live snapshot reads the live object
    fn checked_node(&self, word: usize, via_snapshot: bool) -> Option<&'static Node<M>> {
        let sh = shadow();
        let o = sh.obj_of_word(word)?;
        let ob = &sh.objs[o as usize];
        let prop = if via_snapshot { "C02" } else { "C01" };
        if ob.pop > 0 || ob.dealloc > 0 {
            let det = format!("dereference of #{} through a {} after it was destructed (seq {})", o, if via_snapshot { "live Snapshot" } else { "counted Rc" }, ob.pop_seq);
            sim().violation(prop, "deref-of-destructed", "deref-of-destructed", &det);
        }
        let node: &'static Node<M> = unsafe { &*(((word & sh.addr_mask) + circ_inner::data_offset()) as *const Node<M>) };
        if !node.check() || node.id != o as u64 {
            let det = format!("object #{} read through a live pointer has a broken canary/id (id field {})", o, node.id);
            sim().violation(prop, "deref-corrupt", "deref-corrupt", &det);
        }
        Some(node)
    }

    fn cell(&self, code: u32) -> Option<(&'static AtomicRc<Node<M>>, Option<u32>)> {
        let (kind, slot, field) = (code / 100, ((code / 10) % 10) as usize, (code % 10) as usize % 2);
        match kind {
            0 => self.world.roots.get(slot % self.world.roots.len().max(1)).map(|c| (unsafe { &*(c as *const _) }, None)),
            1 => {
                let rc = self.rcs.get(slot)?.as_ref()?;
                let w = circ::verif::rc_word(rc);
                let n = self.checked_node(w, false)?;
                Some((&n.next[field], shadow().obj_of_word(w)))
            }
            _ => {
                let (s, g) = self.snaps.get(slot)?.as_ref()?;
                self.guards[*g].as_ref()?;
                let w = circ::verif::snapshot_word(s);
                let n = self.checked_node(w, true)?;
                Some((&n.next[field], shadow().obj_of_word(w)))
            }
        }
    }

    fn wcell(&self, code: u32) -> Option<&'static AtomicWeak<Node<M>>> {
        let (kind, slot) = (code / 100, ((code / 10) % 10) as usize);
        match kind {
            0 => self.world.wroots.get(slot % self.world.wroots.len().max(1)).map(|c| unsafe { &*(c as *const _) }),
            1 => {
                let rc = self.rcs.get(slot)?.as_ref()?;
                let n = self.checked_node(circ::verif::rc_word(rc), false)?;
                Some(&n.wlink)
            }
            _ => {
                let (s, g) = self.snaps.get(slot)?.as_ref()?;
                self.guards[*g].as_ref()?;
                let n = self.checked_node(circ::verif::snapshot_word(s), true)?;
                Some(&n.wlink)
            }
        }
    }

    /// acyclicity by construction: an edge X -> Y is only written when rank(Y) > rank(X)
    fn edge_allowed(&self, owner: Option<u32>, target_word: usize) -> bool {
        let sh = shadow();
        match (owner, sh.obj_of_word(target_word)) {
            (Some(x), Some(y)) => sh.objs[y as usize].rank > sh.objs[x as usize].rank,
            _ => true,
        }
    }

    fn put_rc(&mut self, dst: usize, rc: Rc<Node<M>>) {
        // caller guarantees the slot is free
        debug_assert!(self.rcs[dst].is_none());
        self.rcs[dst] = Some(rc);
    }

    fn free_rc_slot(&self) -> Option<usize> {
        (0..NRC).find(|&i| self.rcs[i].is_none())
    }
    fn free_weak_slot(&self) -> Option<usize> {
        (0..NWEAK).find(|&i| self.weaks[i].is_none())
    }

    fn release_rc(&mut self, rc: Rc<Node<M>>) {
        if let Some(o) = shadow().obj_of_word(circ::verif::rc_word(&rc)) {
            shadow().release_strong(o, 1);
        }
        drop(rc);
    }
    fn release_weak(&mut self, w: Weak<Node<M>>) {
        if let Some(o) = shadow().obj_of_word(circ::verif::weak_word(&w)) {
            shadow().release_weak(o, 1);
        }
        drop(w);
    }

    fn new_node(&mut self, origin: Origin) -> (Node<M>, u32, u64) {
        let sh = shadow();
        let n = sh.objs.len() as u64;
        sh.next_rank_salt = crate::rng::mix(&[sh.next_rank_salt, n, 0xABCD]);
        let rank = ((sh.next_rank_salt >> 40) << 24) | n;
        let id = sh.reserve_id(rank, origin);
        (Node::new(id as u64), id, rank)
    }

    fn register(&mut self, id: u32, word: usize, strong: i64) {
        let sh = shadow();
        let addr = word & sh.addr_mask;
        let state_addr = circ::verif::state_addr::<Node<M>>(word);
        let node: &Node<M> = unsafe { &*((addr + circ_inner::data_offset()) as *const Node<M>) };
        let cells = [circ::verif::atomic_rc_addr(&node.next[0]), circ::verif::atomic_rc_addr(&node.next[1])];
        sh.register(id, addr, state_addr, cells, strong);
    }

    /// C16: the participant's pinned bit and guard count agree with the model
    pub fn check_pin_state(&mut self, when: &str) {
        if !self.check_pins || self.in_tls || self.local_addr == 0 {
            return;
        }
        let sh = shadow();
        let u = &sh.ucs[self.tid];
        let live = u.guards.len() - if u.suspended { 1 } else { 0 };
        let p = unsafe { circ::verif::peek_local(self.local_addr) };
        let pinned = p.epoch_word & 1 == 1;
        if pinned != (live > 0) || p.guard_count != live {
            let det = format!(
                "{}: thread t{} has {} live guard(s){} but its participant shows pinned={} guard_count={}",
                when, self.tid, u.guards.len(), if u.suspended { " (one suspended by reactivate_after)" } else { "" }, pinned, p.guard_count
            );
            sh.soft("C16", &format!("pin-state-mismatch/{}", if pinned { "pinned-without-guard" } else { "unpinned-with-guard" }), det);
        }
        // While the thread holds a guard its announced epoch stays put: the library re-announces a
        // participant only while its last guard is being dropped (collection in `unpin`, the
        // cascade's re-pin every 128 nodes) or on reactivation of its sole guard. A move inside a
        // live critical section ends that section's protection early, whatever made it.
        if live > 0 && pinned {
            let cur = p.epoch_word >> 1;
            match self.cs_epoch {
                None => self.cs_epoch = Some(cur),
                Some(e0) if cur != e0 => {
                    let det = format!(
                        "{}: thread t{} holds {} guard(s) of a critical section announced at epoch {}, but its participant now announces epoch {}",
                        when, self.tid, live, e0, cur
                    );
                    sh.soft("C16,C14", "announced-epoch-moved-inside-cs", det.clone());
                    if cur.wrapping_sub(e0) & (usize::MAX >> 1) >= 2 {
                        // two steps let the clock reach e0 + 3: garbage retired inside this very
                        // critical section expires while it is still active
                        sh.soft("C02,C13,C16,C14", "cs-protection-lost", det);
                    }
                }
                _ => {}
            }
        } else {
            self.cs_epoch = None;
        }
    }

    pub fn exec_all(&mut self, ops: &[Op]) {
        for (i, o) in ops.iter().enumerate() {
            crate::sched::set_op(self.op_base + i as u32);
            user_yield();
            self.check_pin_state("before op");
            self.exec(*o);
            self.check_pin_state("after op");
        }
    }

    fn drop_guard(&mut self, g: usize) {
        if let Some(slot) = self.guards[g].take() {
            for s in self.snaps.iter_mut() {
                if matches!(s, Some((_, gi)) if *gi == g) {
                    *s = None;
                }
            }
            for s in self.wsnaps.iter_mut() {
                if matches!(s, Some((_, gi)) if *gi == g) {
                    *s = None;
                }
            }
            shadow().guard_released(self.tid, slot.uid, true);
            drop(slot.g);
        }
    }

    pub fn exec(&mut self, o: Op) {
        let (a, b, c, d) = (o.a as usize, o.b as usize, o.c as usize, o.d as usize);
        let tid = self.tid;
        match o.k {
            K::Nop => {}
            K::TlsInit => {
                TLSP.with(|_| ());
            }
            K::Pin => {
                if a < NGUARD && self.guards[a].is_none() {
                    let g = circ::cs();
                    let local = circ::verif::local_of(&g).local;
                    let uid = shadow().guard_created_on(tid, local);
                    if self.local_addr == 0 && !self.in_tls {
                        self.local_addr = local;
                        let sh = shadow();
                        if sh.plocal.len() <= tid {
                            sh.plocal.resize(tid + 1, 0);
                        }
                        sh.plocal[tid] = local;
                    }
                    self.guards[a] = Some(GuardSlot { g, uid });
                }
            }
            K::Unpin => {
                if a < NGUARD {
                    self.drop_guard(a);
                }
            }
            K::Flush => {
                if let Some((g, _)) = self.guard_ref(a) {
                    g.flush();
                }
            }
            K::Reactivate | K::ReactAfter => {
                if a >= NGUARD || self.guards[a].is_none() {
                    return;
                }
                let uid = self.guards[a].as_ref().unwrap().uid;
                for s in self.snaps.iter_mut() {
                    if matches!(s, Some((_, gi)) if *gi == a) {
                        *s = None;
                    }
                }
                for s in self.wsnaps.iter_mut() {
                    if matches!(s, Some((_, gi)) if *gi == a) {
                        *s = None;
                    }
                }
                let sh = shadow();
                sh.guard_released(tid, uid, false);
                // sole among the guards of its own participant (during thread-local destruction a
                // thread can hold guards of several temporary participants)
                let sole = sh.ucs[tid].sole_on_participant(uid);
                let before = if self.local_addr != 0 && !self.in_tls { Some(unsafe { circ::verif::peek_local(self.local_addr) }) } else { None };
                sh.ucs[tid].suspended = true;
                sh.ucs[tid].suspended_uid = uid;
                let me: *mut Ctx<M> = self as *mut Ctx<M>;
                let gm: &mut Guard = unsafe { &mut (&mut (*me).guards)[a].as_mut().unwrap().g };
                // a deferred function that panics inside the collection this call runs (b = 1 on
                // Reactivate): the unwinding leaves the call early, the guard stays with its owner
                let mut coll_panic = false;
                if o.k == K::Reactivate && b == 1 {
                    let r = std::panic::catch_unwind(std::panic::AssertUnwindSafe(|| gm.reactivate()));
                    if let Err(e) = r {
                        if !e.is::<InjectedPanic>() {
                            std::panic::resume_unwind(e);
                        }
                        coll_panic = true;
                    }
                } else if o.k == K::Reactivate {
                    gm.reactivate();
                } else {
                    let body = b;
                    let glocal = circ::verif::local_of(gm).local;
                    // (sole by the model and by the participant's own count)
                    let lib_sole = glocal != 0 && unsafe { circ::verif::peek_local(glocal) }.guard_count == 1;
                    let r = std::panic::catch_unwind(std::panic::AssertUnwindSafe(|| {
                        gm.reactivate_after(|| {
                            // inside the closure the receiver does not count as a live guard
                            let ctx = unsafe { &mut *me };
                            ctx.check_pin_state("inside reactivate_after");
                            if ctx.in_tls && sole && lib_sole {
                                // the same for a guard of a temporary participant (thread-local
                                // destruction after the handle is gone): the closure runs outside
                                // the critical section, so that whatever it waits for can be reclaimed
                                let p = unsafe { circ::verif::peek_local(glocal) };
                                sim().probe("reactivate_after_in_tls_destructor");
                                if p.epoch_word & 1 == 1 {
                                    let det = format!("inside reactivate_after on the sole guard of a participant used by t{} during thread-local destruction the participant is still pinned (epoch word {:#x}, guard count {})", ctx.tid, p.epoch_word, p.guard_count);
                                    shadow().soft("C20,C16", "pin-state-mismatch/pinned-inside-reactivate_after-in-tls", det);
                                }
                            }
                            match body {
                                1 => {
                                    sim().fault("panic_closure");
                                    std::panic::resume_unwind(Box::new(InjectedPanic));
                                }
                                2 => {
                                    // (not an op boundary: g2 is not a guard of the model)
                                    let g2 = circ::cs();
                                    crate::sched::inner_yield();
                                    drop(g2);
                                }
                                3 => {
                                    let g2 = circ::cs();
                                    g2.flush();
                                    crate::sched::inner_yield();
                                    drop(g2);
                                }
                                _ => {
                                    user_yield();
                                }
                            }
                        })
                    }));
                    if let Err(e) = r {
                        if !e.is::<InjectedPanic>() {
                            std::panic::resume_unwind(e);
                        }
                        coll_panic = body != 1;
                    }
                }
                if coll_panic {
                    // The guard is still live, so the thread has to be inside a critical section
                    // (C16: "stays in its critical section until its last live guard is dropped");
                    // whether that is the old one or a new one is not judged. The check at the
                    // next op boundary compares the participant's state with the live guards.
                    sim().probe("collection_panicked_inside_reactivate");
                    let sh = shadow();
                    sh.ucs[tid].suspended = false;
                    self.cs_epoch = None;
                    self.check_pin_state("after a deferred function panicked inside reactivate");
                    return;
                }
                let sh = shadow();
                sh.ucs[tid].suspended = false;
                if sole {
                    sh.cs_restarted_for(tid, uid);
                    self.cs_epoch = None;
                }
                // C16: what reactivation did to the announced epoch
                if let Some(bf) = before {
                    let af = unsafe { circ::verif::peek_local(self.local_addr) };
                    let global = sim().clock.map(|f| f()).unwrap_or(0);
                    if sole {
                        if af.epoch_word & 1 == 1 && (af.epoch_word >> 1) as u64 != global {
                            let det = format!("reactivate on the sole guard of t{} left it announced at epoch {} while the global epoch is {}", tid, af.epoch_word >> 1, global);
                            shadow().soft("C16", "reactivate-stale-epoch", det);
                        }
                        sim().probe("reactivate_sole");
                    } else {
                        if af.epoch_word != bf.epoch_word && o.k == K::Reactivate {
                            let det = format!("reactivate on a non-sole guard of t{} changed its announced epoch word {:#x} -> {:#x}", tid, bf.epoch_word, af.epoch_word);
                            // (documented: the participant stays pinned, so this also lets the clock run
                            // arbitrarily far past the epoch the outer guard pinned in: C14)
                            shadow().soft("C16,C14", "reactivate-nonsole-changed", det);
                        }
                        sim().probe("reactivate_nonsole");
                    }
                }
            }
            K::PanicCs => {
                // a guard that is dropped by unwinding while a collection is pending: whatever the
                // collection pops is run (or handed on) as usual, panicking thread or not
                let me: *mut Ctx<M> = self as *mut Ctx<M>;
                let r = std::panic::catch_unwind(std::panic::AssertUnwindSafe(|| {
                    let ctx = unsafe { &mut *me };
                    let g = circ::cs();
                    match a {
                        1 => crate::closures::defer_shape_chain(tid, &g, b, 0),
                        2 => {
                            if let Some(i) = (0..NRC).find(|&i| ctx.rcs[i].is_some()) {
                                let rc = ctx.rcs[i].take().unwrap();
                                ctx.release_rc(rc);
                            }
                        }
                        3 => {
                            // a bulk iterator with shares left is dropped by the unwinding: they
                            // are released like in any other drop
                            let count = [2usize, 3, 5][b % 3];
                            let (node, id, _rank) = ctx.new_node(Origin::NewIter(count as u32));
                            crate::alloc::capture_begin(circ::verif::block_layout::<Node<M>>().0);
                            let mut it = Rc::new_many_iter(node, count);
                            if let Some(addr) = crate::alloc::capture_end() {
                                if !shadow().objs[id as usize].registered {
                                    ctx.register(id, addr, count as i64);
                                }
                                if let Some(rc) = it.next() {
                                    match ctx.free_rc_slot() {
                                        Some(s) => ctx.put_rc(s, rc),
                                        None => ctx.release_rc(rc),
                                    }
                                }
                                shadow().release_strong(id, count as i64 - 1);
                                g.flush();
                                crate::sched::inner_yield();
                                sim().fault("panic_with_bulk_iterator");
                                let _keep = it;
                                std::panic::resume_unwind(Box::new(InjectedPanic));
                            }
                        }
                        _ => {}
                    }
                    g.flush();
                    crate::sched::inner_yield();
                    sim().fault("panic_with_guard");
                    std::panic::resume_unwind(Box::new(InjectedPanic));
                }));
                if let Err(e) = r {
                    if !e.is::<InjectedPanic>() {
                        std::panic::resume_unwind(e);
                    }
                }
            }
            K::New => {
                if a >= NRC || self.rcs[a].is_some() {
                    return;
                }
                let (node, id, mut rank) = self.new_node(Origin::New);
                if c != 0 {
                    // directed templates fix the rank class so that their edges are always legal
                    rank = (rank & 0xFFFF_FFFF_FFFF) | ((c as u64 & 0xFFFF) << 48);
                    shadow().objs[id as usize].rank = rank;
                }
                // optional plain-Rc edge, only towards a higher-ranked node
                if b < NRC && d < 5 {
                    if let Some(src) = self.rcs[b].as_ref() {
                        let w = circ::verif::rc_word(src);
                        if let Some(t) = shadow().obj_of_word(w) {
                            if shadow().objs[t as usize].rank > rank {
                                let extra = src.clone();
                                shadow().acquire_strong(t, "Rc::clone");
                                unsafe { *node.extra.get() = extra };
                            }
                        }
                    }
                }
                // d = 1..4: a field initialised through a conversion impl from the same source
                // (1 AtomicRc::from(&Rc), 2 AtomicRc::from(Rc), 3 AtomicWeak::from(&Rc), 4 AtomicWeak::from(&Weak))
                let mut node = node;
                let mut conv_field = 0usize;
                // (object, tag) of the pointer the conversion was given
                let mut conv_src = (0u32, 0usize);
                if d >= 1 && d <= 4 && b < NRC {
                    if let Some(src) = self.rcs[b].as_ref() {
                        let w = circ::verif::rc_word(src);
                        if let Some(t) = shadow().obj_of_word(w) {
                            if shadow().objs[t as usize].rank > rank {
                                conv_src = self.val(w);
                                match d {
                                    1 => {
                                        node.next[0] = AtomicRc::from(src);
                                        shadow().acquire_strong(t, "AtomicRc::from(&Rc)");
                                    }
                                    2 => {
                                        let cl = src.clone();
                                        shadow().acquire_strong(t, "Rc::clone");
                                        node.next[1] = AtomicRc::from(cl);
                                    }
                                    3 => {
                                        node.wlink = AtomicWeak::from(src);
                                        shadow().acquire_weak(t, "AtomicWeak::from(&Rc)");
                                    }
                                    _ => {
                                        let wk = src.downgrade();
                                        shadow().acquire_weak(t, "Rc::downgrade");
                                        node.wlink = AtomicWeak::from(&wk);
                                        shadow().acquire_weak(t, "AtomicWeak::from(&Weak)");
                                        shadow().release_weak(t, 1);
                                        drop(wk);
                                    }
                                }
                                conv_field = d;
                                sim().probe("field_from_conversion");
                            }
                        }
                    }
                }
                // d = 5, 6: the weak field filled from the Weak in slot b, through get_mut() on the
                // still private node / through AtomicWeak::from(Weak)
                if (d == 5 || d == 6) && b < NWEAK {
                    if let Some(src) = self.weaks[b].as_ref() {
                        if let Some(t) = shadow().obj_of_word(circ::verif::weak_word(src)) {
                            let wk = src.clone();
                            conv_src = self.val(circ::verif::weak_word(src));
                            shadow().acquire_weak(t, "Weak::clone");
                            if d == 5 {
                                *node.wlink.get_mut() = wk;
                            } else {
                                node.wlink = AtomicWeak::from(wk);
                            }
                            conv_field = 3;
                            sim().probe("field_from_conversion");
                        }
                    }
                }
                let rc = Rc::new(node);
                self.register(id, circ::verif::rc_word(&rc), 1);
                if conv_field != 0 {
                    // the cell histories start from this content, not from null
                    let n = rc.as_ref().unwrap();
                    let seq = sim().seq;
                    let (cell, weak_cell, w) = match conv_field {
                        1 => (circ::verif::atomic_rc_addr(&n.next[0]), false, read_word(circ::verif::atomic_rc_addr(&n.next[0]))),
                        2 => (circ::verif::atomic_rc_addr(&n.next[1]), false, read_word(circ::verif::atomic_rc_addr(&n.next[1]))),
                        _ => (circ::verif::atomic_weak_addr(&n.wlink), true, read_word(circ::verif::atomic_weak_addr(&n.wlink))),
                    };
                    // a conversion moves the pointer it is given into the cell as it is: same
                    // object, same tag (C08/C09: the cell holds a (pointer, tag) pair)
                    if self.val(w) != conv_src {
                        let det = format!("a cell built by conversion variant {} from (#{}, tag {}) holds (#{}, tag {})", d, conv_src.0 as i64 - 1, conv_src.1, self.val(w).0 as i64 - 1, self.val(w).1);
                        shadow().soft(if weak_cell { "C09" } else { "C08" }, "conversion-changed-content", det);
                    }
                    hist_push(HistEv { tid, cell, weak_cell, kind: if weak_cell { K::StoreW } else { K::Store }, weak_cas: false, inv: seq, ret: seq, input: self.val(w), expected: (0, 0), ok: true, output: (0, 0), back: (0, 0) });
                }
                self.put_rc(a, rc);
            }
            K::NewMany => {
                let n = [0usize, 1, 2, 3, 8][a % 5];
                let (node, id, _rank) = self.new_node(Origin::NewMany(n as u32));
                let rcs: Vec<Rc<Node<M>>> = match n {
                    0 => {
                        // nothing is returned; the block address is not observable through the API
                        // the object block is the allocation made by this call
                        crate::alloc::capture_begin(circ::verif::block_layout::<Node<M>>().0);
                        let r: [Rc<Node<M>>; 0] = Rc::new_many::<0>(node);
                        let _ = r;
                        let base = crate::alloc::capture_end();
                        if let Some(addr) = base {
                            if !shadow().objs[id as usize].registered {
                                self.register(id, addr, 0);
                            }
                        }
                        sim().probe("new_many_0");
                        Vec::new()
                    }
                    1 => Rc::new_many::<1>(node).into_iter().collect(),
                    2 => Rc::new_many::<2>(node).into_iter().collect(),
                    3 => Rc::new_many::<3>(node).into_iter().collect(),
                    _ => Rc::new_many::<8>(node).into_iter().collect(),
                };
                if n > 0 {
                    let w0 = circ::verif::rc_word(&rcs[0]);
                    if rcs.iter().any(|r| r.is_null() || circ::verif::rc_word(r) != w0) {
                        sim().violation("C10", "new_many-bad-pointers", "new_many-bad-pointers", &format!("new_many::<{}> returned null or differing pointers", n));
                    }
                    self.register(id, w0, n as i64);
                }
                for rc in rcs {
                    match self.free_rc_slot() {
                        Some(s) => self.put_rc(s, rc),
                        None => {
                            user_yield();
                            self.release_rc(rc)
                        }
                    }
                }
            }
            K::NewIter => {
                let count = [0usize, 1, 2, 3, 5, 8, 17][a % 7];
                let take = b.min(count + 1);
                let (node, id, _rank) = self.new_node(Origin::NewIter(count as u32));
                crate::alloc::capture_begin(circ::verif::block_layout::<Node<M>>().0);
                let mut it = Rc::new_many_iter(node, count);
                match crate::alloc::capture_end() {
                    Some(addr) => {
                        if !shadow().objs[id as usize].registered {
                            self.register(id, addr, count as i64);
                        }
                    }
                    None => return,
                }
                let mut yielded = 0;
                for _ in 0..take {
                    user_yield();
                    match it.next() {
                        Some(rc) => {
                            yielded += 1;
                            let o = shadow().obj_of_word(circ::verif::rc_word(&rc));
                            if o != Some(id) || rc.is_null() {
                                sim().violation("C10", "new_many_iter-bad-pointer", "new_many_iter-bad-pointer", "iterator yielded a null/foreign pointer");
                            }
                            match self.free_rc_slot() {
                                Some(s) => self.put_rc(s, rc),
                                None => self.release_rc(rc),
                            }
                        }
                        None => break,
                    }
                }
                if yielded > count || (take > count && yielded != count) {
                    sim().violation("C10", "new_many_iter-wrong-count", "new_many_iter-wrong-count", &format!("new_many_iter(_, {}) yielded {} pointers", count, yielded));
                }
                user_yield();
                // c bits 1-2: skip over shares through the iterator adaptors (nth / step_by): the
                // skipped shares are released inside the call (release at invocation)
                let mut remaining = count - yielded;
                let mode = (c >> 1) & 3;
                let mut handed: Vec<Rc<Node<M>>> = Vec::new();
                match mode {
                    1 | 2 => {
                        let k = if mode == 1 { 1 } else { count };
                        let skipped = k.min(remaining);
                        shadow().release_strong(id, skipped as i64);
                        remaining -= skipped;
                        let r = it.nth(k);
                        if r.is_some() != (remaining > 0) {
                            sim().violation("C10", "new_many_iter-wrong-count", "new_many_iter-wrong-count", &format!("new_many_iter(_, {}): nth({}) after {} yielded pointers returned {}", count, k, yielded, if r.is_some() { "a pointer" } else { "None" }));
                        }
                        if let Some(rc) = r {
                            remaining -= 1;
                            handed.push(rc);
                        }
                        sim().probe("new_many_iter_nth");
                    }
                    3 => {
                        let kept = remaining.div_ceil(2);
                        shadow().release_strong(id, (remaining / 2) as i64);
                        let v: Vec<Rc<Node<M>>> = it.by_ref().step_by(2).collect();
                        if v.len() != kept {
                            sim().violation("C10", "new_many_iter-wrong-count", "new_many_iter-wrong-count", &format!("new_many_iter(_, {}): step_by(2) over the last {} shares yielded {} pointers", count, remaining, v.len()));
                        }
                        remaining = 0;
                        handed.extend(v);
                        sim().probe("new_many_iter_step_by");
                    }
                    _ => {}
                }
                for rc in handed {
                    let o = shadow().obj_of_word(circ::verif::rc_word(&rc));
                    if o != Some(id) || rc.is_null() {
                        sim().violation("C10", "new_many_iter-bad-pointer", "new_many_iter-bad-pointer", "iterator yielded a null/foreign pointer");
                    }
                    match self.free_rc_slot() {
                        Some(s) => self.put_rc(s, rc),
                        None => {
                            user_yield();
                            self.release_rc(rc)
                        }
                    }
                }
                user_yield();
                // the shares never yielded are released by abort/drop (release at invocation)
                shadow().release_strong(id, remaining as i64);
                if c & 1 != 0 {
                    if let Some((g, _)) = self.guard_ref(d) {
                        it.abort(g);
                        return;
                    }
                }
                drop(it);
            }
            K::IterOpen => {
                let slot = c % 2;
                if self.iters[slot].is_some() {
                    return;
                }
                let count = [1usize, 2, 3, 5, 8][a % 5];
                let take = b.min(count);
                let (node, id, _rank) = self.new_node(Origin::NewIter(count as u32));
                crate::alloc::capture_begin(circ::verif::block_layout::<Node<M>>().0);
                let mut it = Rc::new_many_iter(node, count);
                match crate::alloc::capture_end() {
                    Some(addr) => {
                        if !shadow().objs[id as usize].registered {
                            self.register(id, addr, count as i64);
                        }
                    }
                    None => return,
                }
                let mut remaining = count;
                for _ in 0..take {
                    user_yield();
                    if let Some(rc) = it.next() {
                        remaining -= 1;
                        match self.free_rc_slot() {
                            Some(s) => self.put_rc(s, rc),
                            None => self.release_rc(rc),
                        }
                    }
                }
                sim().probe("bulk_iterator_left_open");
                self.iters[slot] = Some((it, id, remaining));
            }
            K::IterNext => {
                let slot = a % 2;
                let Some((it, id, remaining)) = self.iters[slot].as_mut() else { return };
                let r = it.next();
                if r.is_some() != (*remaining > 0) {
                    let det = format!("new_many_iter: next() with {} shares left returned {}", remaining, if r.is_some() { "a pointer" } else { "None" });
                    sim().violation("C10", "new_many_iter-wrong-count", "new_many_iter-wrong-count", &det);
                }
                if let Some(rc) = r {
                    *remaining -= 1;
                    let want = *id;
                    if shadow().obj_of_word(circ::verif::rc_word(&rc)) != Some(want) || rc.is_null() {
                        sim().violation("C10", "new_many_iter-bad-pointer", "new_many_iter-bad-pointer", "iterator yielded a null/foreign pointer");
                    }
                    match self.free_rc_slot() {
                        Some(s) => self.put_rc(s, rc),
                        None => self.release_rc(rc),
                    }
                }
            }
            K::IterClose => {
                let slot = a % 2;
                let Some((it, id, remaining)) = self.iters[slot].take() else { return };
                // the shares never yielded are released by abort/drop (release at invocation)
                shadow().release_strong(id, remaining as i64);
                if b != 0 {
                    if let Some((g, _)) = self.guard_ref(c) {
                        it.abort(g);
                        return;
                    }
                }
                drop(it);
            }
            K::Clone => {
                if a < NRC && b < NRC && self.rcs[b].is_none() {
                    if let Some(src) = self.rcs[a].as_ref() {
                        let rc = src.clone();
                        if let Some(ob) = shadow().obj_of_word(circ::verif::rc_word(&rc)) {
                            shadow().acquire_strong(ob, "Rc::clone");
                        }
                        self.put_rc(b, rc);
                    }
                }
            }
            K::DropRc => {
                if a < NRC {
                    if let Some(rc) = self.rcs[a].take() {
                        self.release_rc(rc);
                    }
                }
            }
            K::Finalize => {
                if a < NRC && self.rcs[a].is_some() {
                    if let Some((g, _)) = self.guard_ref(b) {
                        let rc = self.rcs[a].take().unwrap();
                        if let Some(ob) = shadow().obj_of_word(circ::verif::rc_word(&rc)) {
                            shadow().release_strong(ob, 1);
                        }
                        rc.finalize(g);
                    }
                }
            }
            K::Downgrade => {
                if a < NRC && b < NWEAK && self.weaks[b].is_none() {
                    if let Some(src) = self.rcs[a].as_ref() {
                        // d = 1 (and guard c live): through a Snapshot and the conversion impl
                        // C12, field independence at the one place where a flag of the count word is
                        // set: a downgrade adds a weak share (and, the first time, the WEAKED flag);
                        // the stamp in the same word is none of its business. Judged only when no
                        // other thread ran during the call.
                        let st_addr = shadow().obj_of_word(circ::verif::rc_word(src)).map(|o| shadow().objs[o as usize].state_addr).unwrap_or(0);
                        let (st0, sw0) = (if st_addr != 0 { crate::shadow::read_state(st_addr) } else { 0 }, sim().stats.switches);
                        let w = match (d, self.guards.get(c).and_then(|g| g.as_ref())) {
                            (1, Some(gs)) => Weak::from(src.snapshot(&gs.g)),
                            _ => src.downgrade(),
                        };
                        if st_addr != 0 && sim().stats.switches == sw0 {
                            let st1 = crate::shadow::read_state(st_addr);
                            if (st0 ^ st1) >> crate::shadow::ST_EPOCH_SHIFT != 0 {
                                let det = format!("a downgrade changed the stamp field of the count word from {} to {} (word {:#018x} -> {:#018x}) with no other thread running in between", st0 >> crate::shadow::ST_EPOCH_SHIFT, st1 >> crate::shadow::ST_EPOCH_SHIFT, st0, st1);
                                shadow().soft("C12", "downgrade-changed-stamp", det);
                            }
                            sim().probe("downgrade_stamp_checked");
                        }
                        if let Some(ob) = shadow().obj_of_word(circ::verif::weak_word(&w)) {
                            shadow().acquire_weak(ob, if d == 1 { "Weak::from(Snapshot)" } else { "Rc::downgrade" });
                        }
                        if (circ::verif::weak_word(&w) ^ circ::verif::rc_word(src)) & (shadow().addr_mask | shadow().tag_mask) != 0 {
                            sim().violation("C10", "downgrade-wrong-pointer", "downgrade-wrong-pointer", "Rc::downgrade returned a pointer to something else");
                        }
                        self.weaks[b] = Some(w);
                    }
                }
            }
            K::WeakMany => {
                if a >= NRC {
                    return;
                }
                let Some(src) = self.rcs[a].as_ref() else { return };
                let n = [0usize, 1, 2, 3, 8, 9, 16][b % 7];
                let src_word = circ::verif::rc_word(src);
                let ws: Vec<Weak<Node<M>>> = match n {
                    0 => src.weak_many::<0>().into_iter().collect(),
                    1 => src.weak_many::<1>().into_iter().collect(),
                    2 => src.weak_many::<2>().into_iter().collect(),
                    3 => src.weak_many::<3>().into_iter().collect(),
                    8 => src.weak_many::<8>().into_iter().collect(),
                    9 => src.weak_many::<9>().into_iter().collect(),
                    _ => src.weak_many::<16>().into_iter().collect(),
                };
                let sh = shadow();
                let target = sh.obj_of_word(src_word);
                if let Some(t) = target {
                    if n > 0 {
                        sh.objs[t as usize].weak_many = true;
                    }
                }
                sim().probe("weak_many");
                for w in &ws {
                    let ww = circ::verif::weak_word(w);
                    let ob = sh.obj_of_word(ww);
                    if let Some(x) = ob {
                        sh.acquire_weak(x, "Rc::weak_many");
                    }
                    if target.is_some() && ob != target {
                        let det = format!("weak_many::<{}> on #{} returned a pointer to {:?} (null = None)", n, target.unwrap(), ob);
                        sh.soft("C10", if ob.is_none() { "weak_many-returns-null" } else { "weak_many-wrong-target" }, det);
                    } else if target.is_some() && (ww & sh.tag_mask) != (src_word & sh.tag_mask) {
                        // "all refer to the receiver": like downgrade() and clone(), the pointers carry
                        // the receiver's tag (they must compare equal to what downgrade() returns)
                        let det = format!("weak_many::<{}> on #{} with tag {} returned a pointer with tag {}", n, target.unwrap(), src_word & sh.tag_mask, ww & sh.tag_mask);
                        sh.soft("C10", "weak_many-wrong-tag", det);
                    }
                }
                for w in ws {
                    match self.free_weak_slot() {
                        Some(s) => self.weaks[s] = Some(w),
                        None => {
                            user_yield();
                            self.release_weak(w)
                        }
                    }
                }
            }
            K::SnapOf => {
                if a < NRC && c < NSNAP {
                    if let (Some(src), Some((g, uid))) = (self.rcs[a].as_ref(), self.guard_ref(b)) {
                        let s = src.snapshot(g);
                        if let Some(ob) = shadow().obj_of_word(circ::verif::snapshot_word(&s)) {
                            shadow().hold(tid, uid, ob, false, Src::RcSnapshot);
                        }
                        self.snaps[c] = Some((ext_snap(s), b));
                    }
                }
            }
            K::RcTag => {
                if a < NRC {
                    if let Some(rc) = self.rcs[a].take() {
                        let t = TAGS[b % TAGS.len()];
                        let before = circ::verif::rc_word(&rc);
                        let rc = rc.with_tag(t);
                        let sh = shadow();
                        if rc.tag() != t & sh.tag_mask || (circ::verif::rc_word(&rc) ^ before) & sh.addr_mask != 0 {
                            sim().violation("C08", "with_tag-wrong", "with_tag-wrong", &format!("Rc::with_tag({:#x}) gave tag {:#x}, word {:#x} -> {:#x}", t, rc.tag(), before, circ::verif::rc_word(&rc)));
                        }
                        self.rcs[a] = Some(rc);
                    }
                }
            }
            K::DerefRc => {
                if a < NRC {
                    if let Some(rc) = self.rcs[a].as_ref() {
                        let w = circ::verif::rc_word(rc);
                        if let Some(n) = self.checked_node(w, false) {
                            // also through the API's own accessor
                            let r = rc.as_ref().map(|x| x.id);
                            if r != Some(n.id) {
                                sim().violation("C01", "deref-corrupt", "deref-corrupt", "Rc::as_ref disagrees with the object");
                            }
                        }
                    }
                }
            }
            K::Counted => {
                if a < NSNAP && b < NRC && self.rcs[b].is_none() {
                    if let Some((s, g)) = self.snaps[a] {
                        if self.guards[g].is_none() {
                            return;
                        }
                        // d = 1: the same through the conversion impl
                        let rc = if d == 1 { Rc::from(s) } else { s.counted() };
                        if let Some(ob) = shadow().obj_of_word(circ::verif::rc_word(&rc)) {
                            shadow().acquire_strong(ob, if d == 1 { "Rc::from(Snapshot)" } else { "Snapshot::counted" });
                        }
                        if (circ::verif::rc_word(&rc) ^ circ::verif::snapshot_word(&s)) & (shadow().addr_mask | shadow().tag_mask) != 0 {
                            sim().violation("C01", "counted-wrong-pointer", "counted-wrong-pointer", "Snapshot::counted / Rc::from(Snapshot) returned a pointer to something else");
                        }
                        self.put_rc(b, rc);
                    }
                }
            }
            K::SnapDown => {
                if a < NSNAP && b < NWSNAP {
                    if let Some((s, g)) = self.snaps[a] {
                        let Some((_, uid)) = self.guard_ref(g) else { return };
                        let ws = if d == 1 { WeakSnapshot::from(s) } else { s.downgrade() };
                        if let Some(ob) = shadow().obj_of_word(circ::verif::weak_snapshot_word(&ws)) {
                            shadow().hold(tid, uid, ob, true, Src::SnapDowngrade);
                        }
                        self.wsnaps[b] = Some((ws, g));
                    }
                }
            }
            K::SnapTag => {
                if a < NSNAP {
                    if let Some((s, g)) = self.snaps[a] {
                        let t = TAGS[b % TAGS.len()];
                        let s2 = s.with_tag(t);
                        let sh = shadow();
                        if s2.tag() != t & sh.tag_mask || (circ::verif::snapshot_word(&s2) ^ circ::verif::snapshot_word(&s)) & sh.addr_mask != 0 {
                            sim().violation("C08", "with_tag-wrong", "with_tag-wrong", &format!("Snapshot::with_tag({:#x}) gave tag {:#x}", t, s2.tag()));
                        }
                        self.snaps[a] = Some((s2, g));
                    }
                }
            }
            K::DerefSnap => {
                if a < NSNAP {
                    if let Some((s, g)) = self.snaps[a] {
                        if self.guards[g].is_some() {
                            let w = circ::verif::snapshot_word(&s);
                            if let Some(n) = self.checked_node(w, true) {
                                if s.as_ref().map(|x| x.id) != Some(n.id) {
                                    sim().violation("C02", "deref-corrupt", "deref-corrupt", "Snapshot::as_ref disagrees with the object");
                                }
                            }
                        }
                    }
                }
            }
            K::Load => {
                if c >= NSNAP {
                    return;
                }
                let Some((g, uid)) = self.guard_ref(b) else { return };
                let Some((cell, _)) = self.cell(o.a) else { return };
                let inv = sim().seq;
                let s = cell.load(ord_load(), g);
                let w = circ::verif::snapshot_word(&s);
                if let Some(ob) = shadow().obj_of_word(w) {
                    shadow().hold(tid, uid, ob, false, Src::Load);
                }
                hist_push(HistEv { tid, cell: circ::verif::atomic_rc_addr(cell), weak_cell: false, kind: K::Load, weak_cas: false, inv, ret: sim().seq, input: (0, 0), expected: (0, 0), ok: true, output: self.val(w), back: (0, 0) });
                self.snaps[c] = Some((ext_snap(s), b));
            }
            K::Store => {
                let Some((g, _)) = self.guard_ref(c) else { return };
                let Some((cell, owner)) = self.cell(o.a) else { return };
                let rc = if b < NRC { self.rcs[b].take() } else { None }.unwrap_or_else(Rc::null);
                let w = circ::verif::rc_word(&rc);
                if d == 0 && !self.edge_allowed(owner, w) {
                    if !rc.is_null() || rc.tag() != 0 {
                        self.rcs[b] = Some(rc);
                    }
                    return;
                }
                let inv = sim().seq;
                // the token moves into the cell; the previous content is released at the swap
                cell.store(rc, ord_store(), g);
                hist_push(HistEv { tid, cell: circ::verif::atomic_rc_addr(cell), weak_cell: false, kind: K::Store, weak_cas: false, inv, ret: sim().seq, input: self.val(w), expected: (0, 0), ok: true, output: (0, 0), back: (0, 0) });
            }
            K::Swap => {
                if b >= NRC {
                    return;
                }
                let Some((cell, owner)) = self.cell(o.a) else { return };
                let rc = self.rcs[b].take().unwrap_or_else(Rc::null);
                let w = circ::verif::rc_word(&rc);
                if c == 0 && !self.edge_allowed(owner, w) {
                    self.rcs[b] = Some(rc);
                    return;
                }
                let inv = sim().seq;
                let old = cell.swap(rc, ord_rmw());
                let ow = circ::verif::rc_word(&old);
                hist_push(HistEv { tid, cell: circ::verif::atomic_rc_addr(cell), weak_cell: false, kind: K::Swap, weak_cas: false, inv, ret: sim().seq, input: self.val(w), expected: (0, 0), ok: true, output: self.val(ow), back: (0, 0) });
                if let Some(ob) = shadow().obj_of_word(ow) {
                    // ownership moved cell -> Rc without a gap; the object must still be alive
                    let obj = &shadow().objs[ob as usize];
                    if obj.pop > 0 {
                        sim().violation("C01", "swap-returned-destructed", "swap-returned-destructed", &format!("swap returned #{} which is already destructed", ob));
                    }
                }
                if !old.is_null() || old.tag() != 0 {
                    self.rcs[b] = Some(old);
                }
            }
            K::Cas => {
                if c >= NRC {
                    return;
                }
                let (exp, gi) = match self.snaps.get(b).and_then(|s| *s) {
                    Some((s, g)) => (s, g),
                    None => match self.any_guard() {
                        Some(g) => (Snapshot::null(), g),
                        None => return,
                    },
                };
                let Some((g, uid)) = self.guard_ref(gi) else { return };
                let Some((cell, owner)) = self.cell(o.a) else { return };
                let des = self.rcs[c].take().unwrap_or_else(Rc::null);
                let dw = circ::verif::rc_word(&des);
                if d & 2 == 0 && !self.edge_allowed(owner, dw) {
                    self.rcs[c] = Some(des);
                    return;
                }
                let ew = circ::verif::snapshot_word(&exp);
                let inv = sim().seq;
                let weak = d & 1 != 0;
                let res = if weak { cell.compare_exchange_weak(exp, des, ord_rmw(), ord_fail(), g) } else { cell.compare_exchange(exp, des, ord_rmw(), ord_fail(), g) };
                let caddr = circ::verif::atomic_rc_addr(cell);
                match res {
                    Ok(old) => {
                        let ow = circ::verif::rc_word(&old);
                        hist_push(HistEv { tid, cell: caddr, weak_cell: false, kind: K::Cas, weak_cas: weak, inv, ret: sim().seq, input: self.val(dw), expected: self.val(ew), ok: true, output: self.val(ow), back: (0, 0) });
                        let sh = shadow();
                        if (ow ^ ew) & (sh.addr_mask | sh.tag_mask) != 0 {
                            sim().violation("C08", "cas-success-wrong-old", "cas-success-wrong-old", &format!("successful compare_exchange returned {:#x}, expected was {:#x}", ow, ew));
                        }
                        if let Some(ob) = sh.obj_of_word(ow) {
                            if sh.objs[ob as usize].pop > 0 {
                                sim().violation("C01", "cas-returned-destructed", "cas-returned-destructed", &format!("compare_exchange returned #{} which is already destructed", ob));
                            }
                        }
                        if !old.is_null() || old.tag() != 0 {
                            self.rcs[c] = Some(old);
                        }
                    }
                    Err(e) => {
                        let cw = circ::verif::snapshot_word(&e.current);
                        let bw = circ::verif::rc_word(&e.desired);
                        hist_push(HistEv { tid, cell: caddr, weak_cell: false, kind: K::Cas, weak_cas: weak, inv, ret: sim().seq, input: self.val(dw), expected: self.val(ew), ok: false, output: self.val(cw), back: self.val(bw) });
                        let sh = shadow();
                        if (bw ^ dw) & (sh.addr_mask | sh.tag_mask) != 0 {
                            sim().violation("C08", "cas-failure-wrong-desired", "cas-failure-wrong-desired", &format!("failed compare_exchange handed back {:#x} instead of desired {:#x}", bw, dw));
                        }
                        if let Some(ob) = sh.obj_of_word(cw) {
                            sh.hold(tid, uid, ob, false, Src::CasCurrent);
                        }
                        if !e.desired.is_null() || e.desired.tag() != 0 {
                            self.rcs[c] = Some(e.desired);
                        } else {
                            drop(e.desired);
                        }
                        if b < NSNAP {
                            self.snaps[b] = Some((ext_snap(e.current), gi));
                        }
                    }
                }
            }
            K::CasTag => {
                let Some((exp, gi)) = self.snaps.get(b).and_then(|s| *s) else { return };
                let Some((g, uid)) = self.guard_ref(gi) else { return };
                let Some((cell, _)) = self.cell(o.a) else { return };
                let t = TAGS[c % TAGS.len()];
                let ew = circ::verif::snapshot_word(&exp);
                let inv = sim().seq;
                let caddr = circ::verif::atomic_rc_addr(cell);
                let sh = shadow();
                let want = (sh.obj_of_word(ew).map(|x| x + 1).unwrap_or(0), t & sh.tag_mask);
                match cell.compare_exchange_tag(exp, t, ord_rmw(), ord_fail(), g) {
                    Ok(prev) => {
                        let pw = circ::verif::snapshot_word(&prev);
                        hist_push(HistEv { tid, cell: caddr, weak_cell: false, kind: K::CasTag, weak_cas: false, inv, ret: sim().seq, input: want, expected: self.val(ew), ok: true, output: self.val(pw), back: (0, 0) });
                        if let Some(ob) = shadow().obj_of_word(pw) {
                            shadow().hold(tid, uid, ob, false, Src::CasTagResult);
                        }
                        self.snaps[b] = Some((ext_snap(prev.with_tag(t)), gi));
                    }
                    Err(e) => {
                        let cw = circ::verif::snapshot_word(&e.current);
                        hist_push(HistEv { tid, cell: caddr, weak_cell: false, kind: K::CasTag, weak_cas: false, inv, ret: sim().seq, input: want, expected: self.val(ew), ok: false, output: self.val(cw), back: self.val(circ::verif::snapshot_word(&e.desired)) });
                        if let Some(ob) = shadow().obj_of_word(cw) {
                            shadow().hold(tid, uid, ob, false, Src::CasCurrent);
                        }
                        self.snaps[b] = Some((ext_snap(e.current), gi));
                    }
                }
            }
            K::CloneW => {
                if a < NWEAK && b < NWEAK && self.weaks[b].is_none() {
                    if let Some(src) = self.weaks[a].as_ref() {
                        let w = src.clone();
                        if let Some(ob) = shadow().obj_of_word(circ::verif::weak_word(&w)) {
                            shadow().acquire_weak(ob, "Weak::clone");
                        }
                        self.weaks[b] = Some(w);
                    }
                }
            }
            K::DropW => {
                if a < NWEAK {
                    if let Some(w) = self.weaks[a].take() {
                        self.release_weak(w);
                    }
                }
            }
            K::Upgrade => {
                if a < NWEAK && b < NRC && self.rcs[b].is_none() {
                    let Some(w) = self.weaks[a].as_ref() else { return };
                    let ww = circ::verif::weak_word(w);
                    let inv = sim().seq;
                    let target = shadow().obj_of_word(ww);
                    let res = w.upgrade();
                    self.judge_upgrade(target, ww, inv, res.as_ref().map(|r| circ::verif::rc_word(r)), "Weak::upgrade");
                    if let Some(rc) = res {
                        if let Some(ob) = target {
                            shadow().acquire_strong(ob, "Weak::upgrade");
                        }
                        if !rc.is_null() || rc.tag() != 0 {
                            self.put_rc(b, rc);
                        }
                    }
                }
            }
            K::WSnapOf => {
                if a < NWEAK && c < NWSNAP {
                    if let (Some(src), Some((g, uid))) = (self.weaks[a].as_ref(), self.guard_ref(b)) {
                        let s = src.snapshot(g);
                        if let Some(ob) = shadow().obj_of_word(circ::verif::weak_snapshot_word(&s)) {
                            shadow().hold(tid, uid, ob, true, Src::WeakSnapshot);
                        }
                        self.wsnaps[c] = Some((ext_wsnap(s), b));
                    }
                }
            }
            K::WTag => {
                if a < NWEAK {
                    if let Some(w) = self.weaks[a].take() {
                        let t = TAGS[b % TAGS.len()];
                        let w = w.with_tag(t);
                        if w.tag() != t & shadow().tag_mask {
                            sim().violation("C09", "with_tag-wrong", "with_tag-wrong", "Weak::with_tag gave a wrong tag");
                        }
                        self.weaks[a] = Some(w);
                    }
                }
            }
            K::WsTag => {
                if a < NWSNAP {
                    if let Some((s, g)) = self.wsnaps[a] {
                        let t = TAGS[b % TAGS.len()];
                        self.wsnaps[a] = Some((s.with_tag(t), g));
                    }
                }
            }
            K::WsCounted => {
                if a < NWSNAP && b < NWEAK && self.weaks[b].is_none() {
                    if let Some((s, g)) = self.wsnaps[a] {
                        if self.guards[g].is_none() {
                            return;
                        }
                        let w = if d == 1 { Weak::from(s) } else { s.counted() };
                        if let Some(ob) = shadow().obj_of_word(circ::verif::weak_word(&w)) {
                            shadow().acquire_weak(ob, if d == 1 { "Weak::from(WeakSnapshot)" } else { "WeakSnapshot::counted" });
                        }
                        self.weaks[b] = Some(w);
                    }
                }
            }
            K::WsUpgrade => {
                if a < NWSNAP && b < NSNAP {
                    if let Some((s, g)) = self.wsnaps[a] {
                        let Some((_, uid)) = self.guard_ref(g) else { return };
                        let ww = circ::verif::weak_snapshot_word(&s);
                        let inv = sim().seq;
                        let target = shadow().obj_of_word(ww);
                        let res = s.upgrade();
                        self.judge_upgrade(target, ww, inv, res.as_ref().map(|r| circ::verif::snapshot_word(r)), "WeakSnapshot::upgrade");
                        if let Some(sn) = res {
                            if let Some(ob) = target {
                                shadow().hold(tid, uid, ob, false, Src::WsnapUpgrade);
                            }
                            self.snaps[b] = Some((sn, g));
                        }
                    }
                }
            }
            K::LoadW => {
                if c >= NWSNAP {
                    return;
                }
                let Some((g, uid)) = self.guard_ref(b) else { return };
                let Some(cell) = self.wcell(o.a) else { return };
                let inv = sim().seq;
                let s = cell.load(ord_load(), g);
                let w = circ::verif::weak_snapshot_word(&s);
                if let Some(ob) = shadow().obj_of_word(w) {
                    shadow().hold(tid, uid, ob, true, Src::WLoad);
                }
                hist_push(HistEv { tid, cell: circ::verif::atomic_weak_addr(cell), weak_cell: true, kind: K::LoadW, weak_cas: false, inv, ret: sim().seq, input: (0, 0), expected: (0, 0), ok: true, output: self.val(w), back: (0, 0) });
                self.wsnaps[c] = Some((ext_wsnap(s), b));
            }
            K::StoreW => {
                let Some((g, _)) = self.guard_ref(c) else { return };
                let Some(cell) = self.wcell(o.a) else { return };
                let w = if b < NWEAK { self.weaks[b].take() } else { None }.unwrap_or_else(Weak::null);
                let ww = circ::verif::weak_word(&w);
                let inv = sim().seq;
                cell.store(w, ord_store(), g);
                hist_push(HistEv { tid, cell: circ::verif::atomic_weak_addr(cell), weak_cell: true, kind: K::StoreW, weak_cas: false, inv, ret: sim().seq, input: self.val(ww), expected: (0, 0), ok: true, output: (0, 0), back: (0, 0) });
            }
            K::SwapW => {
                if b >= NWEAK {
                    return;
                }
                let Some(cell) = self.wcell(o.a) else { return };
                let w = self.weaks[b].take().unwrap_or_else(Weak::null);
                let ww = circ::verif::weak_word(&w);
                let inv = sim().seq;
                let old = cell.swap(w, ord_rmw());
                let ow = circ::verif::weak_word(&old);
                hist_push(HistEv { tid, cell: circ::verif::atomic_weak_addr(cell), weak_cell: true, kind: K::SwapW, weak_cas: false, inv, ret: sim().seq, input: self.val(ww), expected: (0, 0), ok: true, output: self.val(ow), back: (0, 0) });
                if !old.is_null() || old.tag() != 0 {
                    self.weaks[b] = Some(old);
                }
            }
            K::CasW => {
                if c >= NWEAK {
                    return;
                }
                let (exp, gi) = match self.wsnaps.get(b).and_then(|s| *s) {
                    Some((s, g)) => (s, g),
                    None => match self.any_guard() {
                        Some(g) => (WeakSnapshot::null(), g),
                        None => return,
                    },
                };
                let Some((g, uid)) = self.guard_ref(gi) else { return };
                let Some(cell) = self.wcell(o.a) else { return };
                let des = self.weaks[c].take().unwrap_or_else(Weak::null);
                let dw = circ::verif::weak_word(&des);
                let ew = circ::verif::weak_snapshot_word(&exp);
                let inv = sim().seq;
                let weak = d != 0;
                let caddr = circ::verif::atomic_weak_addr(cell);
                let res = if weak { cell.compare_exchange_weak(exp, des, ord_rmw(), ord_fail(), g) } else { cell.compare_exchange(exp, des, ord_rmw(), ord_fail(), g) };
                match res {
                    Ok(old) => {
                        let ow = circ::verif::weak_word(&old);
                        hist_push(HistEv { tid, cell: caddr, weak_cell: true, kind: K::CasW, weak_cas: weak, inv, ret: sim().seq, input: self.val(dw), expected: self.val(ew), ok: true, output: self.val(ow), back: (0, 0) });
                        let sh = shadow();
                        if (ow ^ ew) & (sh.addr_mask | sh.tag_mask) != 0 {
                            sim().violation("C09", "cas-success-wrong-old", "cas-success-wrong-old", &format!("successful AtomicWeak::compare_exchange returned {:#x}, expected was {:#x}", ow, ew));
                        }
                        if !old.is_null() || old.tag() != 0 {
                            self.weaks[c] = Some(old);
                        }
                    }
                    Err(e) => {
                        let cw = circ::verif::weak_snapshot_word(&e.current);
                        let bw = circ::verif::weak_word(&e.desired);
                        hist_push(HistEv { tid, cell: caddr, weak_cell: true, kind: K::CasW, weak_cas: weak, inv, ret: sim().seq, input: self.val(dw), expected: self.val(ew), ok: false, output: self.val(cw), back: self.val(bw) });
                        let sh = shadow();
                        if (bw ^ dw) & (sh.addr_mask | sh.tag_mask) != 0 {
                            sim().violation("C09", "cas-failure-wrong-desired", "cas-failure-wrong-desired", "failed AtomicWeak::compare_exchange handed back a different pointer");
                        }
                        if let Some(ob) = sh.obj_of_word(cw) {
                            sh.hold(tid, uid, ob, true, Src::WCasCurrent);
                        }
                        if !e.desired.is_null() || e.desired.tag() != 0 {
                            self.weaks[c] = Some(e.desired);
                        }
                        if b < NWSNAP {
                            self.wsnaps[b] = Some((ext_wsnap(e.current), gi));
                        }
                    }
                }
            }
            K::CasTagW => {
                let Some((exp, gi)) = self.wsnaps.get(b).and_then(|s| *s) else { return };
                let Some((g, uid)) = self.guard_ref(gi) else { return };
                let Some(cell) = self.wcell(o.a) else { return };
                let t = TAGS[c % TAGS.len()];
                let ew = circ::verif::weak_snapshot_word(&exp);
                let inv = sim().seq;
                let caddr = circ::verif::atomic_weak_addr(cell);
                let sh = shadow();
                let want = (sh.obj_of_word(ew).map(|x| x + 1).unwrap_or(0), t & sh.tag_mask);
                match cell.compare_exchange_tag(exp, t, ord_rmw(), ord_fail(), g) {
                    Ok(prev) => {
                        let pw = circ::verif::weak_snapshot_word(&prev);
                        hist_push(HistEv { tid, cell: caddr, weak_cell: true, kind: K::CasTagW, weak_cas: false, inv, ret: sim().seq, input: want, expected: self.val(ew), ok: true, output: self.val(pw), back: (0, 0) });
                        if let Some(ob) = shadow().obj_of_word(pw) {
                            shadow().hold(tid, uid, ob, true, Src::WCasTagResult);
                        }
                        self.wsnaps[b] = Some((ext_wsnap(prev.with_tag(t)), gi));
                    }
                    Err(e) => {
                        let cw = circ::verif::weak_snapshot_word(&e.current);
                        hist_push(HistEv { tid, cell: caddr, weak_cell: true, kind: K::CasTagW, weak_cas: false, inv, ret: sim().seq, input: want, expected: self.val(ew), ok: false, output: self.val(cw), back: (0, 0) });
                        if let Some(ob) = shadow().obj_of_word(cw) {
                            shadow().hold(tid, uid, ob, true, Src::WCasCurrent);
                        }
                        self.wsnaps[b] = Some((ext_wsnap(e.current), gi));
                    }
                }
            }
            K::Defer => {
                if let Some((g, _)) = self.guard_ref(a) {
                    if o.d == 1 {
                        crate::closures::defer_panicking(tid, g);
                    } else {
                        crate::closures::defer_shape_chain(tid, g, b, o.c.min(4));
                    }
                }
            }
            K::TryAdvance => {
                if let Some((g, _)) = self.guard_ref(a) {
                    circ::verif::try_advance(g);
                }
            }
            K::Collect => {
                // "collect now", through the public API only: flush, then reactivate the guard
                // (the collection runs while the participant is unpinned, if this is its sole
                // guard). Calling Global::collect from inside a live critical section is not a
                // public path: a cascade started there re-announces the participant
                // (dispose_general_node) and would cut the user's own critical section short.
                if self.guard_ref(a).is_some() {
                    self.exec(Op { k: K::Flush, ..o });
                    self.exec(Op { k: K::Reactivate, ..o });
                }
            }
            K::CheckDeferred => {
                // bounded liveness: the template has arranged that at least `a` deferred functions
                // sit in expired bags and that enough collection rounds have been made since
                let ran = shadow().n_closures_run;
                sim().probe("check_deferred");
                if ran < o.a as u64 {
                    let det = format!("only {} of the {} deferred functions that expired before a participant got stuck had run after the agreed number of pin/flush/unpin rounds of another thread", ran, o.a);
                    // from a thread-local destructor after the handle is gone this is also C20
                    // ("running collections work from any point of a thread's life")
                    shadow().soft(if self.in_tls { "C15,C20" } else { "C15" }, "expired-deferred-not-run", det);
                }
            }
            K::QPush | K::QPop | K::QPopIf | K::LIns | K::LDel | K::LTrav => {}
            K::Signal => sim().raise_signal(o.a),
            K::Await => sim().await_signal(tid, o.a),
        }
    }

    /// C05 oracle, evaluated at the return of an upgrade.
    fn judge_upgrade(&mut self, target: Option<u32>, _in_word: usize, inv: u64, out_word: Option<usize>, how: &str) {
        let sh = shadow();
        let Some(o) = target else {
            // null in => Some(null) out
            match out_word {
                Some(w) if w & sh.addr_mask == 0 => {}
                _ => sim().violation("C05", "null-upgrade-wrong", "null-upgrade-wrong", &format!("{} of a null weak pointer returned {:?}", how, out_word)),
            }
            return;
        };
        let oi = o as usize;
        match out_word {
            Some(w) => {
                sh.n_upgrade_some += 1;
                if sh.objs[oi].ever_unowned {
                    sh.n_upgrade_after_unowned += 1;
                }
                if sh.obj_of_word(w) != Some(o) {
                    sim().violation("C05", "upgrade-wrong-target", "upgrade-wrong-target", &format!("{} of #{} returned another pointer", how, o));
                }
                let ob = &sh.objs[oi];
                if ob.pop > 0 {
                    let det = format!("{} succeeded on #{} whose destruction ran at seq {} ({} path): the returned reference reads a dropped object", how, o, ob.pop_seq, crate::shadow::path_name(ob.depth));
                    let props = if how.starts_with("WeakSnapshot") { "C05,C02" } else { "C05,C01" };
                    sim().violation(props, "upgrade-after-destruct", &format!("upgrade-after-destruct/{}/{}", crate::shadow::path_name(ob.depth), how), &det);
                }
                if let Some(f) = ob.first_failed_upgrade {
                    if f < inv {
                        let det = format!("{} succeeded on #{} although an earlier upgrade had already failed (returned at seq {} < invocation {})", how, o, f, inv);
                        sim().violation("C05", "upgrade-after-failed-upgrade", &format!("upgrade-after-failed-upgrade/{}", how), &det);
                    }
                }
            }
            None => {
                sh.n_upgrade_none += 1;
                let st = read_state(sh.objs[oi].state_addr);
                if sh.objs[oi].first_failed_upgrade.is_none() {
                    sh.objs[oi].first_failed_upgrade = Some(sim().seq);
                }
                if st & ST_DESTRUCTED == 0 && sh.objs[oi].pop == 0 {
                    let det = format!("{} failed on #{} although its destruction has not begun (strong tokens {}, count word {:#x})", how, o, sh.objs[oi].strong, st);
                    sh.soft("C05", &format!("upgrade-failed-on-live/{}", how), det);
                }
            }
        }
    }

    /// Drop everything the context still owns, in slot order.
    pub fn drop_all(&mut self) {
        for i in 0..self.iters.len() {
            if let Some((it, id, remaining)) = self.iters[i].take() {
                user_yield();
                shadow().release_strong(id, remaining as i64);
                drop(it);
            }
        }
        for g in 0..NGUARD {
            if self.guards[g].is_some() {
                user_yield();
                self.drop_guard(g);
            }
        }
        for i in 0..NRC {
            if let Some(rc) = self.rcs[i].take() {
                user_yield();
                self.release_rc(rc);
            }
        }
        for i in 0..NWEAK {
            if let Some(w) = self.weaks[i].take() {
                user_yield();
                self.release_weak(w);
            }
        }
    }
}

/// Body of one simulated thread.
pub fn run_thread<M: AlignMarker>(tid: usize, world: &'static World<M>, prog: &ThreadProg) {
    let mut ctx = Ctx::new(tid, world);
    if prog.tls_mode == 1 {
        TLSP.with(|_| ());
        sim().fault("tls_order_after_handle");
    }
    let mut tls_pending = prog.tls_mode == 2;
    for (i, o) in prog.ops.iter().enumerate() {
        crate::sched::set_op(i as u32);
        user_yield();
        ctx.check_pin_state("before op");
        ctx.exec(*o);
        ctx.check_pin_state("after op");
        if tls_pending && ctx.local_addr != 0 {
            TLSP.with(|_| ());
            tls_pending = false;
            sim().fault("tls_order_before_handle");
        }
    }
    crate::sched::set_op(prog.ops.len() as u32);
    // from here on the participant may be finalized at any time: other threads stop looking at it
    if let Some(p) = shadow().plocal.get_mut(tid) {
        *p = 0;
    }
    if prog.tls_mode != 0 {
        let tls_ops = prog.tls_ops.clone();
        let leak = prog.exit_mode == 1;
        if !leak {
            ctx.drop_all();
        }
        let mut tctx = if leak { ctx } else { Ctx::new(tid, world) };
        tctx.in_tls = true;
        tctx.op_base = prog.ops.len() as u32 + 1;
        let f: Box<dyn FnOnce()> = Box::new(move || {
            sim().fault("tls_api");
            {
                let sh = shadow();
                if sh.tls_phase.len() <= tid {
                    sh.tls_phase.resize(tid + 1, false);
                }
                sh.tls_phase[tid] = true;
            }
            // guards that were leaked into TLS die with the thread: drop them first so that the
            // model and the participant agree, then run the destructor's own program
            tctx.exec_all(&tls_ops);
            crate::sched::set_op(tctx.op_base + tls_ops.len() as u32);
            tctx.drop_all();
        });
        TLSP.with(|t| t.borrow_mut().0 = Some(f));
    } else {
        ctx.drop_all();
    }
}

/// Body of the janitor thread (runs alone after every other thread has exited): release the
/// shared cells, then pin/flush/unpin until the shadow model sees everything reclaimed.
pub fn run_janitor<M: AlignMarker>(tid: usize, world: &'static World<M>, max_rounds: u64) -> u64 {
    sim().threads[tid].at_boundary = false;
    {
        let g = circ::cs();
        for c in &world.roots {
            c.store(Rc::null(), SeqCst, &g);
        }
        for c in &world.wroots {
            c.store(Weak::null(), SeqCst, &g);
        }
    }
    let mut rounds = 0u64;
    let mut extra = 0;
    shadow().ebr.mark_janitor_start();
    while rounds < max_rounds {
        let g = circ::cs();
        g.flush();
        drop(g);
        rounds += 1;
        if shadow().all_reclaimed() && (rounds >= 16 || shadow().ebr.unfreed_records().is_empty()) {
            // a few more rounds so that stale deferred work (double destructs) would surface
            extra += 1;
            if extra > 6 {
                break;
            }
        }
    }
    rounds
}

/// Offsets inside the object block (payload vs count word), learned from the library.
pub mod circ_inner {
    static mut DATA_OFFSET: usize = usize::MAX;
    pub fn set_data_offset(off: usize) {
        unsafe { DATA_OFFSET = off }
    }
    pub fn data_offset() -> usize {
        unsafe { DATA_OFFSET }
    }
}
