//! Shared memory between a worker and the child it forks for one run: the child appends its
//! scheduling decisions as it goes (so they survive a crash) and writes its result record at
//! the end.

use std::sync::atomic::{AtomicU64, AtomicUsize, Ordering::*};

const RESULT_CAP: usize = 4 << 20;
const SCHED_CAP: usize = 4 << 20; // entries (tid:u32,count:u32) = 8 bytes each
const OFF_DONE: usize = 0;
const OFF_RLEN: usize = 8;
const OFF_SLEN: usize = 16;
const OFF_RESULT: usize = 64;
const OFF_SCHED: usize = OFF_RESULT + RESULT_CAP;
const TOTAL: usize = OFF_SCHED + SCHED_CAP * 8;

static BASE: AtomicUsize = AtomicUsize::new(0);

pub fn create() {
    unsafe {
        let p = libc::mmap(
            std::ptr::null_mut(),
            TOTAL,
            libc::PROT_READ | libc::PROT_WRITE,
            libc::MAP_SHARED | libc::MAP_ANONYMOUS | libc::MAP_NORESERVE,
            -1,
            0,
        );
        assert!(p != libc::MAP_FAILED, "shm mmap failed");
        BASE.store(p as usize, SeqCst);
    }
}

fn word(off: usize) -> &'static AtomicU64 {
    unsafe { &*((BASE.load(Relaxed) + off) as *const AtomicU64) }
}

/// Parent: reset before forking a child.
pub fn reset() {
    word(OFF_DONE).store(0, SeqCst);
    word(OFF_RLEN).store(0, SeqCst);
    word(OFF_SLEN).store(0, SeqCst);
}

/// Child: append one scheduling decision (run-length encoded).
pub fn sched_push(tid: u32) {
    let base = BASE.load(Relaxed);
    if base == 0 {
        return;
    }
    let n = word(OFF_SLEN).load(Relaxed) as usize;
    unsafe {
        let arr = (base + OFF_SCHED) as *mut u32;
        if n > 0 && *arr.add((n - 1) * 2) == tid && *arr.add((n - 1) * 2 + 1) < u32::MAX {
            *arr.add((n - 1) * 2 + 1) += 1;
            return;
        }
        if n >= SCHED_CAP {
            return;
        }
        *arr.add(n * 2) = tid;
        *arr.add(n * 2 + 1) = 1;
    }
    word(OFF_SLEN).store(n as u64 + 1, Release);
}

/// Child: write the result record.
pub fn write_result(s: &str) {
    let base = BASE.load(Relaxed);
    if base == 0 {
        return;
    }
    let b = s.as_bytes();
    let n = b.len().min(RESULT_CAP);
    unsafe {
        std::ptr::copy_nonoverlapping(b.as_ptr(), (base + OFF_RESULT) as *mut u8, n);
    }
    word(OFF_RLEN).store(n as u64, SeqCst);
    word(OFF_DONE).store(1, SeqCst);
}

/// Parent: read the result record, if the child wrote one.
pub fn read_result() -> Option<String> {
    if word(OFF_DONE).load(SeqCst) != 1 {
        return None;
    }
    let n = word(OFF_RLEN).load(SeqCst) as usize;
    let base = BASE.load(Relaxed);
    let bytes = unsafe { std::slice::from_raw_parts((base + OFF_RESULT) as *const u8, n) };
    Some(String::from_utf8_lossy(bytes).into_owned())
}

/// Parent: read the schedule recorded so far.
pub fn read_sched() -> Vec<(u32, u32)> {
    let n = word(OFF_SLEN).load(SeqCst) as usize;
    let base = BASE.load(Relaxed);
    let arr = (base + OFF_SCHED) as *const u32;
    (0..n).map(|i| unsafe { (*arr.add(i * 2), *arr.add(i * 2 + 1)) }).collect()
}
