//! Shared memory between a worker and the child it forks for one run: the child appends its
//! scheduling decisions as it goes (so they survive a crash) and writes its result record at
//! the end.

use std::sync::atomic::{AtomicU64, AtomicUsize, Ordering::*};

const RESULT_CAP: usize = 4 << 20;
const SCHED_CAP: usize = 2 << 20; // entries (from, op, step, to): 4 x u32
const OFF_DONE: usize = 0;
const OFF_RLEN: usize = 8;
const OFF_SLEN: usize = 16;
const OFF_BLEN: usize = 24;
const OFF_PLEN: usize = 32;
const OFF_RESULT: usize = 64;
const OFF_SCHED: usize = OFF_RESULT + RESULT_CAP;
const OFF_BUG: usize = OFF_SCHED + SCHED_CAP * 16;
const BUG_CAP: usize = 1 << 16;
const OFF_PANIC: usize = OFF_BUG + BUG_CAP * 8;
const PANIC_CAP: usize = 4096;
const TOTAL: usize = OFF_PANIC + PANIC_CAP;

static BASE: AtomicUsize = AtomicUsize::new(0);

pub fn create() {
    unsafe {
        let p = libc::mmap(
            std::ptr::null_mut(),
            TOTAL,
            libc::PROT_READ | libc::PROT_WRITE,
            libc::MAP_SHARED | libc::MAP_ANONYMOUS | libc::MAP_NORESERVE,
            -1,
            0,
        );
        assert!(p != libc::MAP_FAILED, "shm mmap failed");
        BASE.store(p as usize, SeqCst);
    }
}

fn word(off: usize) -> &'static AtomicU64 {
    unsafe { &*((BASE.load(Relaxed) + off) as *const AtomicU64) }
}

/// Parent: reset before forking a child.
pub fn reset() {
    word(OFF_DONE).store(0, SeqCst);
    word(OFF_RLEN).store(0, SeqCst);
    word(OFF_SLEN).store(0, SeqCst);
    word(OFF_BLEN).store(0, SeqCst);
    word(OFF_PLEN).store(0, SeqCst);
}

/// Child: append one context switch: thread `from`, at position (op, step), hands over to `to`.
pub fn sched_push(from: u32, op: u32, step: u32, to: u32) {
    let base = BASE.load(Relaxed);
    if base == 0 {
        return;
    }
    let n = word(OFF_SLEN).load(Relaxed) as usize;
    if n >= SCHED_CAP {
        return;
    }
    unsafe {
        let arr = (base + OFF_SCHED) as *mut u32;
        *arr.add(n * 4) = from;
        *arr.add(n * 4 + 1) = op;
        *arr.add(n * 4 + 2) = step;
        *arr.add(n * 4 + 3) = to;
    }
    word(OFF_SLEN).store(n as u64 + 1, Release);
}

/// Child: write the result record.
pub fn write_result(s: &str) {
    let base = BASE.load(Relaxed);
    if base == 0 {
        return;
    }
    let b = s.as_bytes();
    let n = b.len().min(RESULT_CAP);
    unsafe {
        std::ptr::copy_nonoverlapping(b.as_ptr(), (base + OFF_RESULT) as *mut u8, n);
    }
    word(OFF_RLEN).store(n as u64, SeqCst);
    word(OFF_DONE).store(1, SeqCst);
}

/// Parent: read the result record, if the child wrote one.
pub fn read_result() -> Option<String> {
    if word(OFF_DONE).load(SeqCst) != 1 {
        return None;
    }
    let n = word(OFF_RLEN).load(SeqCst) as usize;
    let base = BASE.load(Relaxed);
    let bytes = unsafe { std::slice::from_raw_parts((base + OFF_RESULT) as *const u8, n) };
    Some(String::from_utf8_lossy(bytes).into_owned())
}

/// Parent: read the schedule recorded so far.
pub fn read_sched() -> Vec<(u32, u32, u32, u32)> {
    let n = word(OFF_SLEN).load(SeqCst) as usize;
    let base = BASE.load(Relaxed);
    let arr = (base + OFF_SCHED) as *const u32;
    (0..n).map(|i| unsafe { (*arr.add(i * 4), *arr.add(i * 4 + 1), *arr.add(i * 4 + 2), *arr.add(i * 4 + 3)) }).collect()
}

/// Child: record that the n-th buggify call fired (survives a crash).
pub fn bug_push(call_no: u64) {
    let base = BASE.load(Relaxed);
    if base == 0 {
        return;
    }
    let n = word(OFF_BLEN).load(Relaxed) as usize;
    if n >= BUG_CAP {
        return;
    }
    unsafe { *((base + OFF_BUG) as *mut u64).add(n) = call_no };
    word(OFF_BLEN).store(n as u64 + 1, Release);
}

pub fn read_bug() -> Vec<u64> {
    let n = word(OFF_BLEN).load(SeqCst) as usize;
    let base = BASE.load(Relaxed);
    (0..n).map(|i| unsafe { *((base + OFF_BUG) as *const u64).add(i) }).collect()
}

/// Child: record the first panic (location and message) as soon as it happens.
pub fn panic_note(s: &str) {
    let base = BASE.load(Relaxed);
    if base == 0 || word(OFF_PLEN).load(SeqCst) != 0 {
        return;
    }
    let b = s.as_bytes();
    let n = b.len().min(PANIC_CAP);
    unsafe { std::ptr::copy_nonoverlapping(b.as_ptr(), (base + OFF_PANIC) as *mut u8, n) };
    word(OFF_PLEN).store(n as u64, SeqCst);
}

pub fn read_panic() -> Option<String> {
    let n = word(OFF_PLEN).load(SeqCst) as usize;
    if n == 0 {
        return None;
    }
    let base = BASE.load(Relaxed);
    let bytes = unsafe { std::slice::from_raw_parts((base + OFF_PANIC) as *const u8, n) };
    Some(String::from_utf8_lossy(bytes).into_owned())
}
