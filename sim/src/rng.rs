//! splitmix64 / xoshiro256** — the only source of randomness in the harness.

#[derive(Clone, Debug)]
pub struct Rng {
    s: [u64; 4],
}

pub fn splitmix64(x: &mut u64) -> u64 {
    *x = x.wrapping_add(0x9E37_79B9_7F4A_7C15);
    let mut z = *x;
    z = (z ^ (z >> 30)).wrapping_mul(0xBF58_476D_1CE4_E5B9);
    z = (z ^ (z >> 27)).wrapping_mul(0x94D0_49BB_1331_11EB);
    z ^ (z >> 31)
}

/// Mix several integers into one seed (order-sensitive).
pub fn mix(parts: &[u64]) -> u64 {
    let mut h = 0x243F_6A88_85A3_08D3u64;
    for &p in parts {
        let mut x = h ^ p.wrapping_mul(0x9E37_79B9_7F4A_7C15);
        h = splitmix64(&mut x);
    }
    h
}

pub fn hash_str(s: &str) -> u64 {
    let mut h = 0xcbf2_9ce4_8422_2325u64;
    for b in s.bytes() {
        h ^= b as u64;
        h = h.wrapping_mul(0x1000_0000_01b3);
    }
    h
}

impl Rng {
    pub fn new(seed: u64) -> Self {
        let mut x = seed;
        let s = [
            splitmix64(&mut x),
            splitmix64(&mut x),
            splitmix64(&mut x),
            splitmix64(&mut x),
        ];
        Rng { s }
    }
    #[inline]
    pub fn next(&mut self) -> u64 {
        let r = self.s[1].wrapping_mul(5).rotate_left(7).wrapping_mul(9);
        let t = self.s[1] << 17;
        self.s[2] ^= self.s[0];
        self.s[3] ^= self.s[1];
        self.s[1] ^= self.s[2];
        self.s[0] ^= self.s[3];
        self.s[2] ^= t;
        self.s[3] = self.s[3].rotate_left(45);
        r
    }
    /// uniform in 0..n (n > 0)
    #[inline]
    pub fn below(&mut self, n: u64) -> u64 {
        debug_assert!(n > 0);
        ((self.next() as u128 * n as u128) >> 64) as u64
    }
    #[inline]
    pub fn range(&mut self, lo: u64, hi_incl: u64) -> u64 {
        lo + self.below(hi_incl - lo + 1)
    }
    #[inline]
    pub fn chance(&mut self, p: f64) -> bool {
        ((self.next() >> 11) as f64) * (1.0 / ((1u64 << 53) as f64)) < p
    }
    pub fn pick<'a, T>(&mut self, xs: &'a [T]) -> &'a T {
        &xs[self.below(xs.len() as u64) as usize]
    }
    /// index drawn proportionally to weights (sum > 0)
    pub fn weighted(&mut self, w: &[u32]) -> usize {
        let total: u64 = w.iter().map(|&x| x as u64).sum();
        let mut r = self.below(total.max(1));
        for (i, &x) in w.iter().enumerate() {
            if r < x as u64 {
                return i;
            }
            r -= x as u64;
        }
        w.len() - 1
    }
    pub fn shuffle<T>(&mut self, xs: &mut [T]) {
        for i in (1..xs.len()).rev() {
            let j = self.below(i as u64 + 1) as usize;
            xs.swap(i, j);
        }
    }
}
