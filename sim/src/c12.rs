//! C12: the modular epoch comparison at the real decision site (`dispose_general_node`).
//! The shadow knows the full-width value of every stamp (count-word stamps from STAMP_WRITE
//! events and cascade merges, link stamps from the epoch value the writer last read), so the
//! 4-bit decision can be judged against true ages.

use crate::shadow::Shadow;

/// Called at RECLAIM_NOW / RECLAIM_DEFER(not old enough) events.
pub fn on_reclaim_decision(sh: &mut Shadow, block: usize, depth: usize, curr_epoch: u64, now: bool) {
    let Some(&o) = sh.addr2id.get(&block) else { return };
    if Some(o) == sh.watch_obj && depth > 0 {
        sh.watch_decision = Some((now, curr_epoch));
    }
    if depth == 0 {
        return;
    }
    let ob = &sh.objs[o as usize];
    // The stamp in the child's count word at this point is the merge the cascade just wrote:
    // max(parent stamp, link stamp, child's own last stamp), see `merge_child_stamp`.
    let Some(stamp) = ob.stamp_full else { return };
    let oldest = ob.stamp_min.unwrap_or(stamp);
    let age = curr_epoch.saturating_sub(stamp);
    let oldest_age = curr_epoch.saturating_sub(oldest);
    // every stamp that took part is real and lies in the window the 4-bit comparison resolves
    let in_window = !ob.stamp_tainted && curr_epoch >= stamp && age >= 3 && oldest_age <= 13;
    if crate::shadow::evdebug() {
        eprintln!("C12 decision #{} depth {} now={} curr={} stamp={:?} min={:?} tainted={} in_window={}", o, depth, now, curr_epoch, ob.stamp_full, ob.stamp_min, ob.stamp_tainted, in_window);
    }
    if now {
        sh.c12_checked += 1;
        // true age: against the clock itself, not the value the cascade says it compared with
        // (the two differ by at most one in a correct cascade, and then the clock is the larger)
        let clock = crate::sched::sim().clock.map(|f| f()).unwrap_or(curr_epoch).max(curr_epoch);
        let true_age = clock.saturating_sub(stamp);
        if clock >= stamp && true_age < 3 {
            let det = format!(
                "child #{} reclaimed immediately at epoch {} (the cascade compared against epoch {}) although its youngest stamp was written at epoch {} (true age {} < 3)",
                o, clock, curr_epoch, stamp, true_age
            );
            // not fatal: the ownership oracles (C01/C02) judge the destruct that follows in this step
            sh.soft("C12", "reclaimed-too-young", det);
            return;
        }
        if in_window {
            sh.c12_window_checked += 1;
        }
    } else if in_window {
        sh.c12_window_checked += 1;
        let det = format!(
            "child #{} re-deferred at epoch {} although all its stamps are old and unambiguous (youngest written at epoch {}, oldest at {}; 4-bit stamp in its count word: {})",
            o, curr_epoch, stamp, oldest, crate::shadow::read_state(ob.state_addr) >> 60
        );
        // (a child that is not reclaimed in the same pass although nothing speaks against it
        // costs a grace period: the mechanism C06 rests on)
        sh.soft("C12,C06", "deferred-although-old", det);
    }
}
