//! Shadow model of ownership for the reference-counting layer, updated inside simulator steps
//! (hence exact), and the oracles evaluated on it.
//!
//! Counting rule: a token being *released* stops counting at the invocation of the releasing
//! operation; a token being *acquired* starts counting at its return. The model can therefore
//! only under-count the protection a user may rely on; it never flags a legitimate destruct.

use std::collections::BTreeMap;

use circ::verif::kind;
use circ::verif::site;

use crate::json::J;
use crate::sched::{sim, Monitor};

static mut SHADOW: *mut Shadow = std::ptr::null_mut();

#[allow(clippy::mut_from_ref)]
pub fn shadow() -> &'static mut Shadow {
    unsafe { &mut *SHADOW }
}
/// VERIF_EVDEBUG=1 (with VERIF_CHILD_STDERR=1): print every library event, for triage
pub fn evdebug() -> bool {
    static ON: std::sync::atomic::AtomicU8 = std::sync::atomic::AtomicU8::new(2);
    let v = ON.load(std::sync::atomic::Ordering::Relaxed);
    if v == 2 {
        let on = std::env::var_os("VERIF_EVDEBUG").is_some() as u8;
        ON.store(on, std::sync::atomic::Ordering::Relaxed);
        return on == 1;
    }
    v == 1
}

pub fn installed() -> bool {
    unsafe { !SHADOW.is_null() }
}
pub fn install(s: Shadow) {
    unsafe { SHADOW = Box::into_raw(Box::new(s)) }
}

#[derive(Clone, Copy, Debug, PartialEq, Eq)]
pub enum Origin {
    New,
    NewMany(u32),
    NewIter(u32),
}

#[derive(Clone, Copy, Debug, PartialEq, Eq)]
pub enum Src {
    Load,
    CasCurrent,
    CasTagResult,
    RcSnapshot,
    WsnapUpgrade,
    WLoad,
    WCasCurrent,
    WCasTagResult,
    WeakSnapshot,
    SnapDowngrade,
}
impl Src {
    pub fn name(self) -> &'static str {
        match self {
            Src::Load => "load",
            Src::CasCurrent => "cas_current",
            Src::CasTagResult => "cas_tag_result",
            Src::RcSnapshot => "rc_snapshot",
            Src::WsnapUpgrade => "wsnap_upgrade",
            Src::WLoad => "aw_load",
            Src::WCasCurrent => "aw_cas_current",
            Src::WCasTagResult => "aw_cas_tag_result",
            Src::WeakSnapshot => "weak_snapshot",
            Src::SnapDowngrade => "snap_downgrade",
        }
    }
}

pub struct Obj {
    pub id: u32,
    pub addr: usize,
    pub state_addr: usize,
    pub rank: u64,
    pub strong: i64,
    pub weak: i64,
    pub pop: u32,
    pub drop: u32,
    pub dealloc: u32,
    pub pop_seq: u64,
    pub depth: i64,
    pub origin: Origin,
    pub weak_many: bool,
    pub ever_weak: bool,
    pub first_failed_upgrade: Option<u64>,
    pub destruct_root_seen: bool,
    /// full-width epoch of the last stamp written into the count word (None = never stamped)
    pub stamp_full: Option<u64>,
    /// oldest real stamp that went into the count word's stamp (cascade merges)
    pub stamp_min: Option<u64>,
    /// a never-written stamp field (4-bit value 0) took part in the count word's stamp
    pub stamp_tainted: bool,
    pub cells: [usize; 2],
    pub ever_unowned: bool,
    pub reclaim_epoch: u64,
    pub registered: bool,
}

#[derive(Clone, Copy)]
pub struct Holding {
    pub tid: usize,
    pub guard: u64,
    pub obj: u32,
    pub weak: bool,
    pub src: Src,
    pub seq: u64,
}

pub struct Closure {
    pub defer_seq: u64,
    pub tid: usize,
    pub executed: u32,
    pub unprotected: bool,
    pub captured_drops: u32,
    pub chain: u32,
    pub shape: u32,
}

/// per simulated thread: what the user-level critical section looks like
#[derive(Clone, Default)]
pub struct UserCs {
    /// live guards (uids), excluding one suspended by reactivate_after
    pub guards: Vec<u64>,
    /// participant each of those guards belongs to (parallel to `guards`; 0 = the thread's own).
    /// A thread has one participant except during thread-local destruction after its handle is
    /// gone, where every outermost `cs()` registers a temporary participant of its own: guards
    /// of different participants are different critical sections, not nested ones.
    pub glocal: Vec<usize>,
    /// per participant with live guards: when its critical section began
    pub pstart: Vec<(usize, u64)>,
    pub cs_start_seq: u64,
    pub suspended: bool,
    pub suspended_uid: u64,
}

impl UserCs {
    fn local_of(&self, uid: u64) -> Option<usize> {
        self.guards.iter().position(|&g| g == uid).map(|i| self.glocal[i])
    }
    /// is `uid` the only live guard of its participant?
    pub fn sole_on_participant(&self, uid: u64) -> bool {
        match self.local_of(uid) {
            Some(l) => self.glocal.iter().filter(|&&x| x == l).count() == 1,
            None => false,
        }
    }
    /// start of every critical section (one per participant) that is active right now
    pub fn active_cs_starts(&self) -> Vec<u64> {
        let mut v = Vec::new();
        for &(l, start) in &self.pstart {
            let live = self.guards.iter().zip(self.glocal.iter()).filter(|(&g, &gl)| gl == l && !(self.suspended && g == self.suspended_uid)).count();
            if live > 0 {
                v.push(start);
            }
        }
        v
    }
}

pub struct Soft {
    pub prop: String,
    pub signature: String,
    pub detail: String,
    pub seq: u64,
}

pub struct Shadow {
    pub objs: Vec<Obj>,
    pub addr2id: BTreeMap<usize, u32>,
    pub state2id: BTreeMap<usize, u32>,
    /// per thread: cascade frames (parent, edges still to be processed as (child, link stamp))
    pub frames: Vec<Vec<(u32, std::collections::VecDeque<(u32, Option<u64>)>)>>,
    pub cell_owner: BTreeMap<usize, u32>,
    /// full-width epoch of the stamp carried by the word currently in a strong cell
    pub cell_stamp: BTreeMap<usize, Option<u64>>,
    pub holdings: Vec<Holding>,
    pub closures: Vec<Closure>,
    pub ucs: Vec<UserCs>,
    pub addr_mask: usize,
    pub tag_mask: usize,
    pub block_size: usize,
    pub soft: Vec<Soft>,
    pub last_reclaim_now: Option<(usize, usize, usize)>,
    pub last_global_read: Vec<u64>,
    pub global_epoch_addr: usize,
    pub next_guard_uid: u64,
    pub next_rank_salt: u64,
    // counters for evidence / non-triviality
    pub n_destruct_during_foreign_cs: u64,
    pub n_cascade_destructs: u64,
    pub n_root_destructs: u64,
    pub n_upgrade_some: u64,
    pub n_upgrade_none: u64,
    pub n_upgrade_after_unowned: u64,
    pub n_holdings: u64,
    pub n_weak_holdings: u64,
    pub n_dealloc: u64,
    pub n_inc_from_zero: u64,
    pub n_reclaim_now_child: u64,
    pub n_reclaim_defer_child: u64,
    pub n_closures_run: u64,
    pub c12_checked: u64,
    pub c12_window_checked: u64,
    pub n_quiescent_checks: u64,
    pub n_quiescent_words: u64,
    pub ebr: crate::ebrmon::EbrMirror,
    /// C12 directed sweep: observed decision for the watched child
    /// properties that ownership-exactness violations are *also* attributed to in this family
    /// (C08 for AtomicRc cell workloads, C09 for AtomicWeak cell workloads)
    pub strong_extra: &'static str,
    pub weak_extra: &'static str,
    /// leaks (objects, blocks, deferred functions) are also attributed to this (C20 in the
    /// thread tear-down families: "without leaking the garbage that thread produced")
    pub leak_extra: &'static str,
    /// collection rounds the janitor made at the end
    pub janitor_rounds_done: u64,
    /// threads that are running their thread-local destructors
    pub tls_phase: Vec<bool>,
    /// participant of each thread while it runs its program (0 = unknown / winding down)
    pub plocal: Vec<usize>,
    /// per thread: lowest / highest stack address at which a payload destructor ran
    pub dtor_stack: Vec<(usize, usize)>,
    /// raise signal 7 when a cascade reclaims a node at this depth (0 = off)
    pub signal_depth: u32,
    /// raise signal 9 when pop_edges of an object of this rank class starts (0 = off)
    pub signal_pop_class: u32,
    /// content (pointer and tag bits) each cell was left with by the last store/swap on it, as
    /// long as no compare-exchange could have written it since
    pub cell_word: std::collections::HashMap<usize, usize>,
    pub debug_watch: Option<u32>,
    pub debug_last: u64,
    pub watch_obj: Option<u32>,
    pub watch_decision: Option<(bool, u64)>,
}

// state word layout, decoded independently of the library's own constants
pub const ST_STRONG_MASK: u64 = (1 << 29) - 1;
pub const ST_WEAK_SHIFT: u32 = 29;
pub const ST_WEAK_MASK: u64 = ((1 << 29) - 1) << 29;
pub const ST_WEAKED: u64 = 1 << 58;
pub const ST_DESTRUCTED: u64 = 1 << 59;
pub const ST_EPOCH_SHIFT: u32 = 60;

pub fn read_state(state_addr: usize) -> u64 {
    unsafe { (*(state_addr as *const std::sync::atomic::AtomicU64)).load(std::sync::atomic::Ordering::SeqCst) }
}
pub fn read_word(addr: usize) -> usize {
    unsafe { (*(addr as *const std::sync::atomic::AtomicUsize)).load(std::sync::atomic::Ordering::SeqCst) }
}

impl Shadow {
    pub fn new(nthreads: usize, addr_mask: usize, tag_mask: usize) -> Shadow {
        Shadow {
            objs: Vec::new(),
            addr2id: BTreeMap::new(),
            state2id: BTreeMap::new(),
            frames: vec![Vec::new(); nthreads],
            cell_owner: BTreeMap::new(),
            cell_stamp: BTreeMap::new(),
            holdings: Vec::new(),
            closures: Vec::new(),
            ucs: vec![UserCs::default(); nthreads],
            addr_mask,
            tag_mask,
            block_size: 256,
            soft: Vec::new(),
            last_reclaim_now: None,
            last_global_read: vec![0; nthreads],
            global_epoch_addr: 0,
            next_guard_uid: 1,
            next_rank_salt: 0,
            n_destruct_during_foreign_cs: 0,
            n_cascade_destructs: 0,
            n_root_destructs: 0,
            n_upgrade_some: 0,
            n_upgrade_none: 0,
            n_upgrade_after_unowned: 0,
            n_holdings: 0,
            n_weak_holdings: 0,
            n_dealloc: 0,
            n_inc_from_zero: 0,
            n_reclaim_now_child: 0,
            n_reclaim_defer_child: 0,
            n_closures_run: 0,
            c12_checked: 0,
            c12_window_checked: 0,
            n_quiescent_checks: 0,
            n_quiescent_words: 0,
            ebr: crate::ebrmon::EbrMirror::default(),
            strong_extra: "",
            weak_extra: "",
            leak_extra: "",
            janitor_rounds_done: 0,
            tls_phase: Vec::new(),
            plocal: Vec::new(),
            dtor_stack: Vec::new(),
            signal_depth: 0,
            signal_pop_class: 0,
            cell_word: std::collections::HashMap::new(),
            debug_watch: std::env::var("VERIF_WATCH").ok().and_then(|s| s.parse().ok()),
            debug_last: 0,
            watch_obj: None,
            watch_decision: None,
        }
    }

    pub fn note_dtor_stack(&mut self, tid: usize, addr: usize) {
        if tid == crate::sched::NONE {
            return;
        }
        if self.dtor_stack.len() <= tid {
            self.dtor_stack.resize(tid + 1, (usize::MAX, 0));
        }
        let e = &mut self.dtor_stack[tid];
        e.0 = e.0.min(addr);
        e.1 = e.1.max(addr);
    }

    pub fn soft(&mut self, prop: &str, signature: &str, detail: String) {
        let sig = format!("{}/{}", prop.split(',').next().unwrap_or(prop), signature);
        if self.soft.iter().any(|s| s.signature == sig) {
            return;
        }
        let seq = sim().seq;
        self.soft.push(Soft { prop: prop.to_string(), signature: sig, detail, seq });
    }

    pub fn obj_of_word(&self, word: usize) -> Option<u32> {
        let a = word & self.addr_mask;
        if a == 0 {
            None
        } else {
            self.addr2id.get(&a).copied()
        }
    }

    /// Reserve an object id (the object's address is not known yet).
    pub fn reserve_id(&mut self, rank: u64, origin: Origin) -> u32 {
        let id = self.objs.len() as u32;
        self.objs.push(Obj {
            id,
            addr: 0,
            state_addr: 0,
            rank,
            strong: 0,
            weak: 0,
            pop: 1,
            drop: 1,
            dealloc: 1,
            pop_seq: 0,
            depth: -1,
            origin,
            weak_many: false,
            ever_weak: false,
            first_failed_upgrade: None,
            destruct_root_seen: false,
            stamp_full: None,
            stamp_min: None,
            stamp_tainted: true,
            cells: [0, 0],
            ever_unowned: false,
            reclaim_epoch: 0,
            registered: false,
        });
        id
    }

    pub fn register(&mut self, id: u32, addr: usize, state_addr: usize, cells: [usize; 2], strong: i64) {
        crate::alloc::register_block(addr);
        self.addr2id.insert(addr, id);
        self.state2id.insert(state_addr, id);
        for c in cells {
            self.cell_owner.insert(c, id);
            self.cell_stamp.insert(c, None);
        }
        let ob = &mut self.objs[id as usize];
        ob.addr = addr;
        ob.state_addr = state_addr;
        ob.cells = cells;
        ob.strong = strong;
        ob.pop = 0;
        ob.drop = 0;
        ob.dealloc = 0;
        ob.ever_unowned = strong == 0;
        ob.registered = true;
    }

    // ---- tokens ----

    pub fn acquire_strong(&mut self, o: u32, how: &str) {
        let ob = &mut self.objs[o as usize];
        if ob.pop > 0 || ob.dealloc > 0 {
            let d = ob.depth;
            let det = format!("object #{} was destructed at seq {} (depth {}) but {} returned a counted reference to it", o, ob.pop_seq, d, how);
            sim().violation("C01", "acquire-after-destruct", &format!("acquire-after-destruct/{}/{}", path_name(d), how), &det);
        }
        ob.strong += 1;
    }
    pub fn release_strong(&mut self, o: u32, n: i64) {
        let ob = &mut self.objs[o as usize];
        ob.strong -= n;
        if ob.strong < 0 {
            // every token was acquired from a library return value: more releases than acquisitions
            // means the library handed out an owner that no count stands for
            let det = format!("strong owners of #{} released more often than the library handed them out (an operation returned an owner that nothing paid for)", o);
            // (a count that is too low is a destruct under an owner waiting to happen: C01)
            sim().violation(&format!("C04,C01{}", self.strong_extra), "owner-conjured", "owner-conjured/strong", &det);
        }
        if ob.strong == 0 {
            ob.ever_unowned = true;
        }
    }
    pub fn acquire_weak(&mut self, o: u32, how: &str) {
        let ob = &mut self.objs[o as usize];
        if ob.dealloc > 0 {
            let det = format!("block of #{} already freed but {} returned a weak reference", o, how);
            sim().violation(&format!("C03{}", self.weak_extra), "weak-acquire-after-free", &format!("weak-acquire-after-free/{}", how), &det);
        }
        ob.weak += 1;
        ob.ever_weak = true;
    }
    pub fn release_weak(&mut self, o: u32, n: i64) {
        let ob = &mut self.objs[o as usize];
        ob.weak -= n;
        if ob.weak < 0 {
            let det = format!("weak owners of #{} released more often than the library handed them out (an operation returned an owner that nothing paid for)", o);
            sim().violation(&format!("C04,C03{}", self.weak_extra), "owner-conjured", "owner-conjured/weak", &det);
        }
    }

    // ---- guards and holdings ----

    pub fn guard_created(&mut self, tid: usize) -> u64 {
        self.guard_created_on(tid, 0)
    }
    /// `local`: address of the participant the guard pins (0 = the thread's only one)
    pub fn guard_created_on(&mut self, tid: usize, local: usize) -> u64 {
        let uid = self.next_guard_uid;
        self.next_guard_uid += 1;
        let seq = sim().seq;
        let u = &mut self.ucs[tid];
        if u.guards.is_empty() {
            u.cs_start_seq = seq;
        }
        if !u.glocal.contains(&local) {
            u.pstart.retain(|e| e.0 != local);
            u.pstart.push((local, seq));
        }
        u.guards.push(uid);
        u.glocal.push(local);
        uid
    }
    pub fn guard_released(&mut self, tid: usize, uid: u64, dropped: bool) {
        self.holdings.retain(|h| !(h.tid == tid && h.guard == uid));
        if dropped {
            let u = &mut self.ucs[tid];
            if let Some(i) = u.guards.iter().position(|&g| g == uid) {
                let l = u.glocal[i];
                u.guards.remove(i);
                u.glocal.remove(i);
                if !u.glocal.contains(&l) {
                    u.pstart.retain(|e| e.0 != l);
                }
            }
        }
    }
    /// `reactivate` on the sole guard returned: a new critical section begins
    pub fn cs_restarted(&mut self, tid: usize) {
        let seq = sim().seq;
        let u = &mut self.ucs[tid];
        u.cs_start_seq = seq;
        for e in u.pstart.iter_mut() {
            e.1 = seq;
        }
    }
    /// the same for the participant of guard `uid` only
    pub fn cs_restarted_for(&mut self, tid: usize, uid: u64) {
        let seq = sim().seq;
        let u = &mut self.ucs[tid];
        if let Some(l) = u.local_of(uid) {
            for e in u.pstart.iter_mut() {
                if e.0 == l {
                    e.1 = seq;
                }
            }
            if u.glocal.iter().all(|&x| x == l) {
                u.cs_start_seq = seq;
            }
        }
    }
    pub fn hold(&mut self, tid: usize, guard: u64, o: u32, weak: bool, src: Src) {
        let ob = &self.objs[o as usize];
        if !weak && ob.pop > 0 {
            let det = format!("{} returned a Snapshot of #{} which was destructed at seq {}", src.name(), o, ob.pop_seq);
            sim().violation("C02", "snapshot-of-destructed", &format!("snapshot-of-destructed/{}/src={}", path_name(ob.depth), src.name()), &det);
        }
        if ob.dealloc > 0 {
            let det = format!("{} returned a pointer to #{} whose block is already freed", src.name(), o);
            let p = if weak { "C03" } else { "C02" };
            sim().violation(p, "snapshot-of-freed", &format!("snapshot-of-freed/src={}", src.name()), &det);
        }
        if weak {
            self.n_weak_holdings += 1;
        } else {
            self.n_holdings += 1;
        }
        let seq = sim().seq;
        self.holdings.push(Holding { tid, guard, obj: o, weak, src, seq });
    }

    // ---- events from the payload ----

    fn on_pop_edges(&mut self, id: u64, cells: [usize; 2], extra_word: usize, block: usize, state_addr: usize) {
        let me = crate::sched::my_tid();
        sim().drain_frees(me);
        let o = id as u32;
        if id >= self.objs.len() as u64 {
            // the payload's id field is garbage: the "object" is memory that was freed (poisoned)
            let det = format!("pop_edges ran on the block at {:#x} whose payload is not a live object (id field reads {:#x}): destructed again after its block was freed", block, id);
            sim().violation("C04,C01", "destruct-of-freed-memory", "destruct-of-freed-memory", &det);
        }
        if (o as usize) < self.objs.len() && !self.objs[o as usize].registered {
            // destructed before the creating call returned (zero-owner bulk constructors)
            self.register(o, block, state_addr, cells, 0);
        }
        if self.signal_pop_class != 0 && (o as usize) < self.objs.len() && (self.objs[o as usize].rank >> 48) as u32 == self.signal_pop_class {
            sim().raise_signal(9);
            sim().probe("pop_edges_signal");
        }
        let (depth, epoch) = match self.last_reclaim_now.take() {
            Some((block, depth, curr)) if block == self.objs[o as usize].addr => (depth as i64, curr as u64),
            _ => (-1, 0),
        };
        let seq = sim().seq;
        sim().fold(0xD0, id);
        {
            let ob = &self.objs[o as usize];
            if ob.pop > 0 {
                let det = format!("pop_edges of #{} ran twice (first at seq {})", o, ob.pop_seq);
                sim().violation("C04", "double-pop-edges", "double-pop-edges", &det);
            }
            let held = self.holdings.iter().find(|h| h.obj == o && !h.weak).copied();
            if ob.strong > 0 {
                let det = format!("#{} destructed ({}) while {} counted strong owner(s) exist{}", o, path_name(depth), ob.strong, if held.is_some() { " and a live Snapshot refers to it" } else { "" });
                let props = format!("{}{}", if held.is_some() { "C01,C02" } else { "C01" }, self.strong_extra);
                sim().violation(&props, "destruct-while-owned", &format!("destruct-while-owned/{}", path_name(depth)), &det);
            }
            if let Some(h) = held {
                let det = format!(
                    "#{} destructed ({}) at seq {} inside the critical section of t{} which holds a Snapshot of it (from {}, made at seq {})",
                    o, path_name(depth), seq, h.tid, h.src.name(), h.seq
                );
                // C05: "the reference they return obeys C01/C02" for snapshots that came from an upgrade.
                // C01: `Snapshot::counted` is one of the ways of obtaining an owner the property
                // lists, and its precondition is exactly a valid Snapshot: from here on the holder
                // can turn its Snapshot into an Rc of an object whose destructor has run.
                // C13 in its second form ("anything unlinked during a critical section's lifetime
                // outlives it") when the Snapshot was read from a cell inside this critical section:
                // the object was linked then
                let props = match h.src {
                    // (cascade: the object was still held by a link of its parent when the
                    // upgrade inside this critical section succeeded, and that link went during it)
                    Src::WsnapUpgrade if depth > 0 => "C02,C05,C01,C13",
                    Src::WsnapUpgrade => "C02,C05,C01",
                    Src::Load | Src::CasCurrent | Src::CasTagResult => "C02,C01,C13",
                    _ => "C02,C01",
                };
                sim().violation(props, "destruct-under-snapshot", &format!("destruct-under-snapshot/{}/src={}", path_name(depth), h.src.name()), &det);
            }
        }
        if depth > 0 {
            self.n_cascade_destructs += 1;
        } else {
            self.n_root_destructs += 1;
        }
        if self.ucs.iter().enumerate().any(|(t, u)| t != me && !u.guards.is_empty()) {
            self.n_destruct_during_foreign_cs += 1;
        }
        let ob = &mut self.objs[o as usize];
        ob.pop = 1;
        ob.pop_seq = seq;
        ob.depth = depth;
        ob.reclaim_epoch = epoch;
        // the edges of a destructed object stop being owners now
        let mut rel = Vec::new();
        let policy = crate::payload::POP_POLICY.load(std::sync::atomic::Ordering::Relaxed);
        let mut edges = std::collections::VecDeque::new();
        for (i, c) in cells.into_iter().enumerate() {
            let w = read_word(c);
            if let Some(ch) = self.obj_of_word(w) {
                rel.push(ch);
                if policy == 0 || policy == 3 || (policy == 1 && i == 0) {
                    edges.push_back((ch, self.cell_stamp.get(&c).copied().flatten()));
                }
            }
        }
        if me < self.frames.len() {
            let fr = &mut self.frames[me];
            while matches!(fr.last(), Some((_, e)) if e.is_empty()) {
                fr.pop();
            }
            fr.push((o, edges));
        }
        if let Some(ch) = self.obj_of_word(extra_word) {
            rel.push(ch);
        }
        for ch in rel {
            self.release_strong(ch, 1);
        }
    }

    fn on_drop(&mut self, id: u64, wcell: usize) {
        let o = id as u32;
        sim().fold(0xD1, id);
        if id >= self.objs.len() as u64 {
            let det = format!("a payload destructor ran on memory that is not a live object (id field reads {:#x})", id);
            sim().violation("C04,C01", "destruct-of-freed-memory", "destruct-of-freed-memory", &det);
        }
        let ob = &mut self.objs[o as usize];
        if ob.drop > 0 {
            sim().violation("C04", "double-drop", "double-drop", &format!("destructor of #{} ran twice", o));
        }
        if ob.pop == 0 {
            sim().violation("C04", "drop-before-pop-edges", "drop-before-pop-edges", &format!("destructor of #{} ran before pop_edges", o));
        }
        ob.drop = 1;
        let w = read_word(wcell);
        if let Some(t) = self.obj_of_word(w) {
            self.release_weak(t, 1);
        }
    }

    fn on_dealloc(&mut self, addr: usize) {
        let Some(&o) = self.addr2id.get(&addr) else { return };
        sim().fold(0xD2, o as u64);
        self.n_dealloc += 1;
        let ob = &mut self.objs[o as usize];
        if ob.dealloc > 0 {
            sim().violation("C04", "double-free", "double-free", &format!("block of #{} freed twice", o));
        }
        ob.dealloc = 1;
        if ob.drop == 0 {
            let det = format!("block of #{} freed before its destructor ran (strong tokens {}, weak tokens {})", o, ob.strong, ob.weak);
            // the block went although the object (which holds an implicit weak share) still exists
            let p = format!("{},C03{}", if ob.strong > 0 { "C01" } else { "C04" }, self.weak_extra);
            sim().violation(&p, "free-before-drop", "free-before-drop", &det);
        }
        if ob.weak > 0 {
            let det = format!("block of #{} freed while {} weak owner(s) exist", o, ob.weak);
            sim().violation(&format!("C03{}", self.weak_extra), "free-while-weak-owned", "free-while-weak-owned", &det);
        }
        if let Some(h) = self.holdings.iter().find(|h| h.obj == o) {
            let det = format!(
                "block of #{} freed inside the critical section of t{} which holds a {} of it (from {})",
                o, h.tid, if h.weak { "WeakSnapshot" } else { "Snapshot" }, h.src.name()
            );
            // C13 in its second form, for the memory block: the holder read the pointer from a
            // cell inside this critical section, so the block was linked then and whatever
            // unlinked it did so during the critical section
            let p = match (h.weak, h.src) {
                (true, Src::WLoad | Src::WCasCurrent | Src::WCasTagResult) => "C03,C13",
                (true, _) => "C03",
                (false, Src::Load | Src::CasCurrent | Src::CasTagResult) => "C02,C13",
                (false, _) => "C02",
            };
            sim().violation(p, "free-under-snapshot", &format!("free-under-snapshot/src={}", h.src.name()), &det);
        }
    }

    pub fn all_reclaimed(&self) -> bool {
        self.objs.iter().all(|o| o.pop == 1 && o.drop == 1 && o.dealloc == 1) && self.closures.iter().all(|c| c.executed >= 1)
    }

    /// conservation at quiescence (C04): everything destructed once and freed once
    pub fn check_quiescence(&mut self, rounds: u64) {
        let mut leaks = Vec::new();
        for o in &self.objs {
            if o.pop != 1 || o.drop != 1 {
                let tag = match o.origin {
                    Origin::NewMany(0) => "origin=new_many0",
                    Origin::NewIter(0) => "origin=new_many_iter0",
                    Origin::NewMany(_) => "origin=new_many",
                    Origin::NewIter(_) => "origin=new_many_iter",
                    Origin::New => "generic",
                };
                leaks.push((if tag == "generic" { format!("C04{}{}", self.strong_extra, self.leak_extra) } else { "C04,C10".to_string() }, "leak-object", tag, format!("#{} never destructed after {} collection rounds (strong tokens {}, origin {:?})", o.id, rounds, o.strong, o.origin)));
            } else if o.dealloc != 1 {
                let tag = if o.weak_many { "weak_many" } else { "generic" };
                leaks.push((if tag == "generic" { format!("C04{}{}", self.weak_extra, self.leak_extra) } else { "C04,C10".to_string() }, "leak-block", tag, format!("block of #{} never freed after {} collection rounds (weak tokens {})", o.id, rounds, o.weak)));
            }
        }
        for (p, k, tag, det) in leaks {
            self.soft(&p, &format!("{}/{}", k, tag), det);
        }
        let undropped: Vec<usize> = self.closures.iter().enumerate().filter(|(_, c)| c.executed == 1 && c.captured_drops != 1).map(|(i, _)| i).collect();
        if !undropped.is_empty() {
            self.soft("C15", "deferred-captures-not-dropped-once", format!("data captured by executed deferred function(s) {:?} was not dropped exactly once", undropped));
        }
        let lost: Vec<usize> = self.closures.iter().enumerate().filter(|(_, c)| c.executed == 0).map(|(i, _)| i).collect();
        if !lost.is_empty() {
            let p = format!("C15{}", self.leak_extra);
            self.soft(&p, "deferred-lost", format!("deferred function(s) {:?} never executed after {} collection rounds", lost, rounds));
        }
    }

    pub fn soft_json(&self) -> J {
        J::Arr(
            self.soft
                .iter()
                .map(|s| J::obj().set("prop", s.prop.split(',').next().unwrap_or("")).set("props", J::Arr(s.prop.split(',').map(|p| J::Str(p.to_string())).collect())).set("signature", s.signature.as_str()).set("detail", s.detail.as_str()).set("seq", s.seq))
                .collect(),
        )
    }

    pub fn counters_json(&self) -> J {
        J::obj()
            .set("objects", self.objs.len())
            .set("dtor_stack_span_max", self.dtor_stack.iter().filter(|e| e.1 >= e.0).map(|e| e.1 - e.0).max().unwrap_or(0))
            .set("root_destructs", self.n_root_destructs)
            .set("cascade_destructs", self.n_cascade_destructs)
            .set("destruct_during_foreign_cs", self.n_destruct_during_foreign_cs)
            .set("upgrade_some", self.n_upgrade_some)
            .set("upgrade_none", self.n_upgrade_none)
            .set("upgrade_after_unowned", self.n_upgrade_after_unowned)
            .set("holdings", self.n_holdings)
            .set("weak_holdings", self.n_weak_holdings)
            .set("deallocs", self.n_dealloc)
            .set("reclaim_now_child", self.n_reclaim_now_child)
            .set("reclaim_defer_child", self.n_reclaim_defer_child)
            .set("closures", self.closures.len())
            .set("closures_run", self.n_closures_run)
            .set("c12_checked", self.c12_checked)
            .set("c12_window_checked", self.c12_window_checked)
            .set("count_words_checked_at_quiescent_points", self.n_quiescent_words)
    }
}

pub fn path_name(depth: i64) -> &'static str {
    if depth < 0 {
        "unknown"
    } else if depth == 0 {
        "root"
    } else {
        "cascade"
    }
}

pub fn hook_pop_edges(id: u64, cells: [usize; 2], extra: usize, block: usize, state_addr: usize) {
    if installed() && crate::sched::my_tid() != crate::sched::NONE {
        shadow().on_pop_edges(id, cells, extra, block, state_addr);
    }
}
pub fn hook_drop(id: u64, wcell: usize) {
    if installed() && crate::sched::my_tid() != crate::sched::NONE {
        shadow().on_drop(id, wcell);
    }
}

/// Monitor proxy installed into the scheduler for RC/EBR interpreter families.
pub struct RcMonitor;

impl Monitor for RcMonitor {
    fn freed(&mut self, _tid: usize, addr: usize) {
        shadow().on_dealloc(addr);
    }

    fn on_step(&mut self, tid: usize, site: u32) {
        let sh = shadow();
        sh.ebr.on_step(tid, site);
        if !sh.ebr.pending_soft.is_empty() {
            for (sig, det) in sh.ebr.take_soft() {
                // an advance past a validated pinned participant is also what C18's title excludes
                sh.soft("C14,C18", &sig, det);
            }
        }
        if let Some(w) = sh.debug_watch {
            // debugging aid (VERIF_WATCH=<object id>): print every change of its count word
            if let Some(ob) = sh.objs.get(w as usize) {
                if ob.registered && ob.dealloc == 0 {
                    let st = read_state(ob.state_addr);
                    if st != sh.debug_last {
                        sh.debug_last = st;
                        eprintln!(
                            "WATCH #{} before seq {} (t{} {}): strong={} weak={} weaked={} destructed={} stamp={} | tokens strong={} weak={}",
                            w, sim().seq, tid, crate::sched::site_name(site), st & ST_STRONG_MASK, (st & ST_WEAK_MASK) >> ST_WEAK_SHIFT, (st & ST_WEAKED) != 0, (st & ST_DESTRUCTED) != 0, st >> ST_EPOCH_SHIFT, ob.strong, ob.weak
                        );
                    }
                }
            }
        }
    }

    /// C12 (field independence, as far as simulated programs reach): with every thread at an op
    /// boundary the count word, decoded with the harness' own layout constants, must agree
    /// with the shadow's tokens — strong and weak each up to one outstanding permission token,
    /// flags exactly.
    fn quiescent(&mut self, _tid: usize) {
        let sh = shadow();
        sh.n_quiescent_checks += 1;
        let mut bad: Option<String> = None;
        for ob in sh.objs.iter() {
            if !ob.registered || ob.dealloc > 0 {
                continue;
            }
            let st = read_state(ob.state_addr);
            let strong = (st & ST_STRONG_MASK) as i64;
            let weak = ((st & ST_WEAK_MASK) >> ST_WEAK_SHIFT) as i64;
            let destructed = st & ST_DESTRUCTED != 0;
            let implicit = if ob.drop == 0 { 1 } else { 0 };
            let ok_strong = destructed || (strong - ob.strong == 0 || strong - ob.strong == 1);
            let ok_weak = weak - (ob.weak + implicit) == 0 || weak - (ob.weak + implicit) == 1;
            let ok_flag = destructed == (ob.pop > 0 || ob.destruct_root_seen);
            let ok_weaked = !ob.ever_weak || (st & ST_WEAKED != 0);
            if !(ok_strong && ok_weak && ok_flag && ok_weaked) {
                bad = Some(format!(
                    "count word of #{} is {:#018x}: decoded strong={} weak={} destructed={} weaked={} stamp={}, but the model has {} strong owner(s), {} weak owner(s) (+{} implicit), destructed={}, ever weak={}",
                    ob.id, st, strong, weak, destructed, st & ST_WEAKED != 0, st >> ST_EPOCH_SHIFT, ob.strong, ob.weak, implicit, ob.pop > 0, ob.ever_weak
                ));
                break;
            }
            sh.n_quiescent_words += 1;
        }
        if let Some(det) = bad {
            sh.soft("C12", "count-word-mismatch", det);
        }
        // C16 across threads: with every thread between two operations, each participant is pinned
        // exactly if the model says its thread holds a guard (whoever ran last must not have
        // changed anybody else's state)
        for t in 0..sh.plocal.len().min(sh.ucs.len()) {
            let l = sh.plocal[t];
            if l == 0 || sh.tls_phase.get(t).copied().unwrap_or(false) {
                continue;
            }
            let u = &sh.ucs[t];
            let live = u.guards.len() - if u.suspended { 1 } else { 0 };
            let p = unsafe { circ::verif::peek_local(l) };
            let pinned = p.epoch_word & 1 == 1;
            if pinned != (live > 0) || p.guard_count != live {
                let det = format!(
                    "at a point where every thread is between two operations (t{} ran last), t{} has {} live guard(s) but its participant shows pinned={} guard_count={}",
                    _tid, t, live, pinned, p.guard_count
                );
                sh.soft("C16", "pin-state-mismatch/seen-from-another-thread", det);
                break;
            }
        }
    }

    fn pre_access(&mut self, tid: usize, site_id: u32, addr: usize, a: usize, b: usize) {
        let sh = shadow();
        match site_id {
            site::EPOCH_LOAD => {
                if addr == sh.global_epoch_addr {
                    sh.last_global_read[tid] = (read_word(addr) >> 1) as u64;
                }
            }
            site::AW_CAS | site::AW_CAS_WEAK | site::AW_CAS_TAG => {
                // a compare-exchange may write the cell: what the last store/swap left is no
                // longer known to be its content
                sh.cell_word.remove(&addr);
            }
            site::ARC_CAS | site::ARC_CAS_WEAK | site::ARC_CAS_TAG => {
                if evdebug() {
                    eprintln!("PRE seq={} t{} cas site={} cell={:#x} cur={:#x} exp={:#x} des={:#x}", sim().seq, tid, site_id, addr, read_word(addr), a, b);
                }
                sh.cell_word.remove(&addr);
                // predicted outcome: the CAS succeeds iff the cell holds exactly `expected`
                let cur = read_word(addr);
                if cur == a {
                    let stamp = if b & sh.addr_mask == 0 { None } else { Some(sh.last_global_read[tid]) };
                    if sh.cell_stamp.contains_key(&addr) {
                        sh.cell_stamp.insert(addr, stamp);
                    }
                } else if (cur ^ a) & !(0xF << 60) == 0 {
                    sim().probe("cas_stamp_only_mismatch");
                }
            }
            site::INC_STRONG_FA2 => {
                // the CAS of increment_strong: from zero iff the count word shows no strong count
                if read_state(addr) & ST_STRONG_MASK == 0 && read_state(addr) & ST_DESTRUCTED == 0 {
                    sh.n_inc_from_zero += 1;
                    sim().probe("inc_strong_from_zero");
                }
            }
            site::INC_WEAK_FA2 => {
                sh.n_inc_from_zero += 1;
                sim().probe("inc_weak_from_zero");
            }
            site::NOT_DESTRUCTED_CAS => {
                if read_state(addr) & ST_STRONG_MASK == 0 {
                    sim().probe("upgrade_token_path");
                }
            }
            site::DISPOSE_CHILD_CAS => {
                if evdebug() {
                    eprintln!("PRE seq={} t{} dispose_child_cas state_addr={:#x} cur={:#018x} exp={:#018x} new={:#018x} clock={}", sim().seq, tid, addr, read_state(addr), a, b, sim().clock.map(|f| f()).unwrap_or(0));
                }
                // the cascade is about to merge stamps into the child's count word; the CAS
                // succeeds iff the word still equals what the loop iteration loaded
                if read_state(addr) == a as u64 {
                    if let Some(&ch) = sh.state2id.get(&addr) {
                        let fr = &mut sh.frames[tid];
                        while matches!(fr.last(), Some((_, e)) if e.is_empty()) {
                            fr.pop();
                        }
                        if let Some((parent, edges)) = fr.last_mut() {
                            if let Some(pos) = edges.iter().position(|e| e.0 == ch) {
                                let (_, link) = edges.remove(pos).unwrap();
                                let p = &sh.objs[*parent as usize];
                                let (ps, pmin, ptaint) = (p.stamp_full, p.stamp_min, p.stamp_tainted);
                                let c = &mut sh.objs[ch as usize];
                                c.stamp_tainted = c.stamp_tainted || ptaint || link.is_none();
                                c.stamp_full = [ps, link, c.stamp_full].iter().flatten().max().copied();
                                c.stamp_min = [pmin, link, c.stamp_min].iter().flatten().min().copied();
                            }
                        }
                    }
                }
            }
            _ => {}
        }
        sh.ebr.pre_access(tid, site_id, addr, a, b);
    }

    fn event(&mut self, tid: usize, k: u32, a: usize, b: usize, c: usize) {
        let sh = shadow();
        if evdebug() {
            eprintln!("EV seq={} t{} op={} kind={} a={:#x} b={} c={}", sim().seq, tid, sim().threads[tid].op_idx, k, a, b, c);
        }
        match k {
            kind::RECLAIM_NOW => {
                sh.last_reclaim_now = Some((a, b, c));
                if b > 0 {
                    sh.n_reclaim_now_child += 1;
                    if b as u32 == sh.signal_depth {
                        sim().raise_signal(7);
                        sim().probe("cascade_depth_signal");
                    }
                }
                crate::c12::on_reclaim_decision(sh, a, b, c as u64, true);
            }
            kind::RECLAIM_DEFER => {
                if b > 0 {
                    sh.n_reclaim_defer_child += 1;
                    if c == 1 {
                        sim().probe("depth_cap_redefer");
                    }
                }
                crate::c12::on_reclaim_decision(sh, a, b, sh.last_global_read[tid], false);
            }
            kind::STAMP_WRITE => {
                // The stamp is an epoch the writer read inside its critical section, so it is the
                // clock or its predecessor. An older one makes a cascade take the object for
                // unreachable while a reader may just have loaded it (the mechanism behind C02).
                let clock = sim().clock.map(|f| f()).unwrap_or(0);
                if (b as u64) + 1 < clock {
                    let in_tls = sh.tls_phase.get(tid).copied().unwrap_or(false);
                    let det = format!(
                        "t{} stamped the count word of the block at {:#x} with epoch {} while the clock is at {}{}",
                        tid, a, b, clock, if in_tls { " (from a thread-local destructor)" } else { "" }
                    );
                    if in_tls {
                        sh.soft("C02,C20", "stale-stamp-in-tls-destructor", det);
                    } else {
                        sh.soft("C02", "stale-stamp", det);
                    }
                }
                if let Some(&o) = sh.addr2id.get(&a) {
                    sh.objs[o as usize].stamp_full = Some(b as u64);
                    sh.objs[o as usize].stamp_min = Some(b as u64);
                    sh.objs[o as usize].stamp_tainted = false;
                }
            }
            kind::DESTRUCT_ROOT => {
                if let Some(&o) = sh.addr2id.get(&a) {
                    sh.objs[o as usize].destruct_root_seen = true;
                }
            }
            kind::DESTRUCT_SKIPPED => sim().probe("try_destruct_found_owner"),
            kind::DEALLOC_SKIPPED => sim().probe("try_dealloc_found_weak"),
            kind::CAS_STAMP_RETRY => sim().probe("cas_stamp_retry"),
            kind::LINK_SWAPPED => {
                // a = cell, b = previous word, c = 0 AtomicRc::store | 1 AtomicRc::swap | 2 AtomicWeak::store | 3 AtomicWeak::swap
                // The content a store/swap takes over must be what the cell held the instant
                // before it wrote: a write based on an older reading releases (or returns) an owner
                // that is not the cell's any more and drops the one that is.
                let mask = sh.addr_mask | sh.tag_mask;
                if let Some(&prev) = sh.cell_word.get(&a) {
                    if (prev ^ b) & mask != 0 {
                        let what = ["AtomicRc::store", "AtomicRc::swap", "AtomicWeak::store", "AtomicWeak::swap"][c.min(3)];
                        let det = format!(
                            "{} on the cell at {:#x} took over the content {:#x} although the cell held {:#x} when it wrote (the write is not one atomic exchange)",
                            what, a, b & mask, prev & mask
                        );
                        if c <= 1 {
                            sh.soft(&format!("C08,C01,C04{}", sh.strong_extra), "write-took-over-stale-content", det);
                        } else {
                            sh.soft(&format!("C09,C03,C04{}", sh.weak_extra), "write-took-over-stale-content", det);
                        }
                    }
                }
                sh.cell_word.insert(a, read_word(a));
                match c {
                    0 => {
                        if let Some(o) = sh.obj_of_word(b) {
                            sh.release_strong(o, 1);
                        }
                    }
                    2 => {
                        if let Some(o) = sh.obj_of_word(b) {
                            sh.release_weak(o, 1);
                        }
                    }
                    _ => {}
                }
                if c <= 1 && sh.cell_stamp.contains_key(&a) {
                    let now = read_word(a);
                    let stamp = if now & sh.addr_mask == 0 { None } else { Some(sh.last_global_read[tid]) };
                    sh.cell_stamp.insert(a, stamp);
                }
            }
            _ => {}
        }
        sh.ebr.event(tid, k, a, b, c);
    }

    fn use_after_free(&mut self, _tid: usize, site_id: u32, addr: usize) -> (String, String) {
        let sh = shadow();
        // a count word or a cell inside a freed object block?
        for o in &sh.objs {
            if o.dealloc > 0 && addr >= o.addr && addr < o.addr + sh.block_size {
                if addr == o.state_addr {
                    return (format!("C03{}", sh.weak_extra), format!("count word of freed block of #{} accessed at {}", o.id, crate::sched::site_name(site_id)));
                }
                return ("C02".into(), format!("field of freed object #{} accessed at {}", o.id, crate::sched::site_name(site_id)));
            }
        }
        (String::new(), format!("internal node at {:#x} accessed after free at {}", addr, crate::sched::site_name(site_id)))
    }
}
