//! Harness closures deferred through the collector (C13, C15): each carries its registry index
//! and a checksummed pattern, in shapes on both sides of `Deferred`'s inline/boxed boundary
//! (inline iff size <= 24 bytes and align <= 8).

use circ::Guard;

use crate::sched::sim;
use crate::shadow::{shadow, Closure};

#[repr(C)]
pub struct Cap<A: Copy, const N: usize> {
    align: [A; 0],
    k: [u8; 4],
    pad: [u8; N],
}

/// Captured data with a destructor: must be dropped exactly once, whatever storage the
/// deferred function used.
impl<A: Copy, const N: usize> Drop for Cap<A, N> {
    fn drop(&mut self) {
        let k = u32::from_le_bytes(self.k);
        if crate::shadow::installed() {
            let sh = shadow();
            if let Some(c) = sh.closures.get_mut(k as usize) {
                c.captured_drops += 1;
                if c.captured_drops > 1 {
                    sim().violation("C15", "deferred-captures-dropped-twice", "deferred-captures-dropped-twice", &format!("data captured by deferred function {} was dropped {} times", k, c.captured_drops));
                }
            }
        }
    }
}

#[derive(Clone, Copy)]
#[repr(align(32))]
pub struct Al32;
#[derive(Clone, Copy)]
#[repr(align(64))]
pub struct Al64;

fn pat(k: u32, i: usize) -> u8 {
    (k.wrapping_mul(31).wrapping_add(i as u32 * 7) & 0xFF) as u8
}

impl<A: Copy, const N: usize> Cap<A, N> {
    fn new(k: u32) -> Self {
        let mut pad = [0u8; N];
        for (i, p) in pad.iter_mut().enumerate() {
            *p = pat(k, i);
        }
        Cap { align: [], k: k.to_le_bytes(), pad }
    }
    fn verify(&self) -> (u32, bool) {
        let k = u32::from_le_bytes(self.k);
        let ok = self.pad.iter().enumerate().all(|(i, &p)| p == pat(k, i)) && (self as *const Self as usize) % std::mem::align_of::<A>() == 0;
        (k, ok)
    }
}

pub const NSHAPES: usize = 10;
pub fn shape_desc(s: usize) -> (usize, usize, bool) {
    // (size, align, inline?)
    match s % NSHAPES {
        0 => (4, 1, true),
        1 => (8, 8, true),
        2 => (16, 8, true),
        3 => (24, 8, true),
        4 => (25, 1, false),
        5 => (32, 8, false),
        6 => (16, 16, false),
        7 => (32, 32, false),
        8 => (64, 64, false),
        _ => (1000, 1, false),
    }
}

fn ran(k: u32, ok: bool) {
    let sh = shadow();
    let seq = sim().seq;
    sim().fold(0xC0, k as u64);
    if k as usize >= sh.closures.len() {
        sim().violation("C15", "deferred-data-corrupt", "deferred-data-corrupt", &format!("a deferred function ran with a corrupted identity ({})", k));
    }
    if !ok {
        sim().violation("C15", "deferred-data-corrupt", "deferred-data-corrupt", &format!("captured data of deferred function {} was corrupted or misaligned when it ran", k));
    }
    let c = &mut sh.closures[k as usize];
    c.executed += 1;
    sh.n_closures_run += 1;
    if c.executed > 1 {
        sim().violation("C15", "deferred-ran-twice", "deferred-ran-twice", &format!("deferred function {} executed {} times", k, c.executed));
    }
    let dseq = c.defer_seq;
    // C13: no critical section that was already active at deferral may still be active
    // (one critical section per participant: see UserCs)
    for (t, u) in sh.ucs.iter().enumerate() {
        for start in u.active_cs_starts() {
            if start <= dseq {
                let det = format!(
                    "deferred function {} (deferred at seq {} by t{}) executed at seq {} on t{} while the critical section of t{} that began at seq {} is still active",
                    k, dseq, c.tid, seq, crate::sched::my_tid(), t, start
                );
                sim().violation("C13", "deferred-ran-inside-older-cs", "deferred-ran-inside-older-cs", &det);
            }
        }
    }
    if sh.ucs.iter().any(|u| !u.guards.is_empty()) {
        sim().probe("closure_ran_while_some_cs_active");
    }
    let (chain, shape) = (sh.closures[k as usize].chain, sh.closures[k as usize].shape);
    if chain > 0 {
        // re-entrant use from inside collection
        sim().probe("closure_deferred_from_inside_collection");
        let me = crate::sched::my_tid();
        let g = circ::cs();
        defer_shape_inner(me, &g, (shape as usize + 3) % NSHAPES, chain - 1);
        g.flush();
        drop(g);
    }
}

fn defer_cap<A: Copy + 'static, const N: usize>(g: &Guard, k: u32) {
    let cap = Cap::<A, N>::new(k);
    unsafe {
        circ::verif::defer(g, move || {
            let c = cap;
            let (k, ok) = c.verify();
            ran(k, ok);
        })
    }
}

/// `chain` > 0: when the function runs (inside somebody's collection) it pins, defers a child
/// with chain - 1 and flushes — garbage produced by garbage, sealed in the middle of a collect
/// loop.
pub fn defer_shape_chain(tid: usize, g: &Guard, shape: usize, chain: u32) {
    defer_shape_inner(tid, g, shape, chain)
}

pub fn defer_shape(tid: usize, g: &Guard, shape: usize) {
    defer_shape_inner(tid, g, shape, 0)
}

/// A deferred function that panics when it runs (after it has been counted as run). Only
/// directed templates use it: they arrange who runs it, inside a `catch_unwind`.
pub fn defer_panicking(tid: usize, g: &Guard) {
    let sh = shadow();
    let k = sh.closures.len() as u32;
    sh.closures.push(Closure { defer_seq: sim().seq, tid, executed: 0, unprotected: false, captured_drops: 1, chain: 0, shape: 0 });
    unsafe {
        circ::verif::defer(g, move || {
            ran(k, true);
            sim().fault("panic_in_deferred_function");
            // the unwinding leaves the rest of the bag this function sat in unrun (a participant
            // record queued for release behind it stays allocated): not judged
            shadow().ebr.bag_lost_to_panic = true;
            std::panic::resume_unwind(Box::new(crate::interp::InjectedPanic));
        })
    }
}

fn defer_shape_inner(tid: usize, g: &Guard, shape: usize, chain: u32) {
    let sh = shadow();
    let k = sh.closures.len() as u32;
    sh.closures.push(Closure { defer_seq: sim().seq, tid, executed: 0, unprotected: false, captured_drops: 0, chain, shape: shape as u32 });
    match shape % NSHAPES {
        0 => defer_cap::<u8, 0>(g, k),
        1 => defer_cap::<u64, 4>(g, k),
        2 => defer_cap::<u64, 12>(g, k),
        3 => defer_cap::<u64, 20>(g, k),
        4 => defer_cap::<u8, 21>(g, k),
        5 => defer_cap::<u64, 28>(g, k),
        6 => defer_cap::<u128, 12>(g, k),
        7 => defer_cap::<Al32, 28>(g, k),
        8 => defer_cap::<Al64, 60>(g, k),
        _ => defer_cap::<u8, 996>(g, k),
    }
    sim().probe(if shape_desc(shape).2 { "defer_inline_shape" } else { "defer_boxed_shape" });
}
