use crate::ops::RunDesc;
pub fn gen_churn(prop: &str, seed: u64) -> RunDesc {
    crate::gen::gen_interp_run(prop, "ebr-churn", seed, crate::gen::Profile::Ebr)
}
