//! EBR-CHURN: participants registering and exiting while others defer, flush and advance with
//! small bags — the registry is traversed (and deleted entries unlinked, which itself defers)
//! inside `try_advance` while bags overflow.

use crate::gen::{swarm_cfg, Profile};
use crate::json::J;
use crate::ops::*;
use crate::rng::Rng;

pub fn gen_churn(prop: &str, seed: u64) -> RunDesc {
    let mut rng = Rng::new(seed);
    let mut cfg = RunCfg::default();
    let nlong = 1 + rng.below(3) as usize;
    let nshort = 1 + rng.below(4) as usize;
    swarm_cfg(&mut rng, &mut cfg, nlong + nshort, true);
    cfg.max_objects = *rng.pick(&[2u32, 2, 3, 4, 8]);
    cfg.manual_interval = *rng.pick(&[1u32, 2, 3, 5, 8, 64]);
    cfg.roots = 1;
    cfg.wroots = 1;
    let mut threads = Vec::new();
    let shape = |rng: &mut Rng| rng.below(crate::closures::NSHAPES as u64) as u32;
    for _ in 0..nlong {
        let mut ops = Vec::new();
        let rounds = 2 + rng.below(8);
        for _ in 0..rounds {
            let nested = rng.chance(0.3);
            ops.push(op(K::Pin, 0, 0, 0, 0));
            if nested {
                ops.push(op(K::Pin, 1, 0, 0, 0));
            }
            for _ in 0..rng.below(5) {
                let chain = if rng.chance(0.25) { 1 + rng.below(3) as u32 } else { 0 };
                ops.push(op(K::Defer, 0, shape(&mut rng), chain, 0));
            }
            match rng.below(6) {
                0 => ops.push(op(K::Flush, 0, 0, 0, 0)),
                1 => ops.push(op(K::TryAdvance, 0, 0, 0, 0)),
                2 => ops.push(op(K::Collect, 0, 0, 0, 0)),
                3 => ops.push(op(K::Reactivate, 0, 0, 0, 0)),
                _ => {}
            }
            if rng.chance(0.3) {
                ops.push(op(K::New, 0, NONE_SLOT, 0, 0));
                ops.push(op(K::DropRc, 0, 0, 0, 0));
            }
            if nested {
                if rng.chance(0.5) {
                    ops.push(op(K::Unpin, 0, 0, 0, 0));
                    ops.push(op(K::Unpin, 1, 0, 0, 0));
                } else {
                    ops.push(op(K::Unpin, 1, 0, 0, 0));
                    ops.push(op(K::Unpin, 0, 0, 0, 0));
                }
            } else {
                ops.push(op(K::Unpin, 0, 0, 0, 0));
            }
        }
        let mut t = ThreadProg::new(0, ops);
        t.name = "advancer".into();
        threads.push(t);
    }
    for i in 0..nshort {
        let mut ops = vec![op(K::Pin, 0, 0, 0, 0)];
        for _ in 0..rng.below(4) {
            ops.push(op(K::Defer, 0, shape(&mut rng), 0, 0));
        }
        if rng.chance(0.3) {
            ops.push(op(K::Flush, 0, 0, 0, 0));
        }
        if rng.chance(0.7) {
            ops.push(op(K::Unpin, 0, 0, 0, 0));
        }
        // some short-lived threads start later (second wave of registrations)
        let mut t = ThreadProg::new(if i >= 2 && rng.chance(0.5) { 1 } else { 0 }, ops);
        t.name = "short-lived".into();
        if rng.chance(0.2) {
            t.tls_mode = 1 + rng.below(2) as u32;
            t.tls_ops = crate::gen::gen_ops(&mut rng, Profile::Ebr, 3, 1, 1);
        }
        threads.push(t);
    }
    if threads.iter().any(|t| t.phase == 1) {
        let mut t = ThreadProg::new(1, crate::gen::ticker_ops(2 + rng.below(6) as usize));
        t.name = "ticker".into();
        threads.push(t);
    }
    if let Some(s) = cfg.stall.as_mut() {
        s.victim = rng.below(nlong as u64) as u32;
    }
    RunDesc { prop: prop.to_string(), family: "ebr-churn".into(), seed, cfg, threads, params: J::Null, schedule: None, buggify_script: None }
}

/// EBR-LONGCS: a victim thread keeps an outer critical section open for a long time and does
/// things inside it that must not end it (reactivating an *inner* guard, nested pins, flushes,
/// defers, internal pins of Rc operations, try_advance/collect), while peers defer and drive the
/// epoch clock. Some runs start at epoch 0, 1 or 2.
pub fn gen_longcs(prop: &str, seed: u64) -> RunDesc {
    let mut rng = Rng::new(seed);
    let mut cfg = RunCfg::default();
    let nvictims = 1 + rng.below(2) as usize;
    let npeers = 1 + rng.below(2) as usize;
    swarm_cfg(&mut rng, &mut cfg, nvictims + npeers, true);
    cfg.max_objects = *rng.pick(&[2u32, 3, 4, 8]);
    cfg.manual_interval = *rng.pick(&[1u32, 2, 3, 5, 8]);
    if rng.chance(0.35) {
        cfg.start_epoch = rng.below(3);
    }
    cfg.roots = 1;
    cfg.wroots = 1;
    let shape = |rng: &mut Rng| rng.below(crate::closures::NSHAPES as u64) as u32;
    let mut threads = Vec::new();
    for v in 0..nvictims {
        let mut ops = vec![op(K::Pin, 0, 0, 0, 0)];
        let nested = rng.chance(0.7);
        if nested {
            ops.push(op(K::Pin, 1, 0, 0, 0));
        }
        ops.push(op(K::Signal, 1 + v as u32, 0, 0, 0));
        let n = 3 + rng.below(10);
        for _ in 0..n {
            match rng.below(12) {
                0..=3 if nested => ops.push(op(K::Reactivate, 1, 0, 0, 0)),
                4 | 5 if nested => ops.push(op(K::ReactAfter, 1, rng.below(4) as u32, 0, 0)),
                6 => ops.push(op(K::Flush, 0, 0, 0, 0)),
                7 => ops.push(op(K::Defer, 0, shape(&mut rng), 0, 0)),
                8 => {
                    ops.push(op(K::New, 0, NONE_SLOT, 0, 0));
                    ops.push(op(K::DropRc, 0, 0, 0, 0));
                }
                9 => ops.push(op(K::TryAdvance, 0, 0, 0, 0)),
                10 => ops.push(op(K::Collect, 0, 0, 0, 0)),
                _ => {
                    // a third guard comes and goes
                    ops.push(op(K::Pin, 2, 0, 0, 0));
                    if rng.chance(0.5) {
                        ops.push(op(K::Reactivate, 2, 0, 0, 0));
                    }
                    ops.push(op(K::Unpin, 2, 0, 0, 0));
                }
            }
            if rng.chance(0.5) {
                ops.push(op(K::Await, 10 + rng.below(6) as u32, 0, 0, 0));
            }
        }
        if nested && rng.chance(0.5) {
            ops.push(op(K::Unpin, 1, 0, 0, 0));
        }
        ops.push(op(K::Await, 20, 0, 0, 0));
        ops.push(op(K::Unpin, 0, 0, 0, 0));
        let mut t = ThreadProg::new(0, ops);
        t.name = "victim".into();
        threads.push(t);
    }
    for p in 0..npeers {
        let mut ops = vec![op(K::Await, 1, 0, 0, 0)];
        let rounds = 4 + rng.below(10);
        for r in 0..rounds {
            ops.push(op(K::Pin, 0, 0, 0, 0));
            for _ in 0..1 + rng.below(3) {
                let chain = if rng.chance(0.3) { 1 + rng.below(3) as u32 } else { 0 };
                ops.push(op(K::Defer, 0, shape(&mut rng), chain, 0));
            }
            ops.push(op(K::Flush, 0, 0, 0, 0));
            ops.push(op(K::Unpin, 0, 0, 0, 0));
            if p == 0 && r < 6 {
                ops.push(op(K::Signal, 10 + r as u32, 0, 0, 0));
            }
        }
        if p == 0 {
            ops.push(op(K::Signal, 20, 0, 0, 0));
        }
        let mut t = ThreadProg::new(0, ops);
        t.name = "peer".into();
        threads.push(t);
    }
    if let Some(s) = cfg.stall.as_mut() {
        s.victim = (nvictims + rng.below(npeers as u64) as usize) as u32;
    }
    RunDesc { prop: prop.to_string(), family: "ebr-longcs".into(), seed, cfg, threads, params: J::Null, schedule: None, buggify_script: None }
}

// ---------------------------------------------------------------------------------------------
// EBR-PRIVATE: a private collector (through the shim) used by several threads, each with its own
// handle; closures of all shapes are deferred, some bags are flushed, some stay local, handles
// and guards are dropped in any order, and finally the last reference to the collector goes
// away with garbage still queued — everything must then run from the collector's own drop
// (C15), and never inside a critical section of *that* collector that is older than the
// deferral (C13). The default collector's clock is not involved.

use std::sync::Arc;

use circ::verif::{Collector, LocalHandle};

use crate::sched::{self, sim, user_yield, ThreadSpec};
use crate::shadow::{self, shadow, Shadow};

pub fn gen_private(prop: &str, seed: u64) -> RunDesc {
    let mut rng = Rng::new(seed);
    let mut cfg = RunCfg::default();
    let nt = 1 + rng.below(4) as usize;
    swarm_cfg(&mut rng, &mut cfg, nt, true);
    cfg.max_objects = *rng.pick(&[2u32, 3, 4, 8, 64]);
    cfg.manual_interval = 64;
    let shape = |rng: &mut Rng| rng.below(crate::closures::NSHAPES as u64) as u32;
    let mut threads = Vec::new();
    for _ in 0..nt {
        let mut ops = Vec::new();
        let n = 2 + rng.below(14);
        let mut pinned = [false; 2];
        for _ in 0..n {
            match rng.below(10) {
                0 | 1 => {
                    let g = rng.below(2) as usize;
                    if !pinned[g] {
                        pinned[g] = true;
                        ops.push(op(K::Pin, g as u32, 0, 0, 0));
                    }
                }
                2 => {
                    let g = rng.below(2) as usize;
                    if pinned[g] {
                        pinned[g] = false;
                        ops.push(op(K::Unpin, g as u32, 0, 0, 0));
                    }
                }
                3..=6 => {
                    if let Some(g) = (0..2).find(|&g| pinned[g]) {
                        ops.push(op(K::Defer, g as u32, shape(&mut rng), 0, 0));
                    } else {
                        pinned[0] = true;
                        ops.push(op(K::Pin, 0, 0, 0, 0));
                    }
                }
                7 => {
                    if let Some(g) = (0..2).find(|&g| pinned[g]) {
                        ops.push(op(K::Flush, g as u32, 0, 0, 0));
                    }
                }
                8 => {
                    if let Some(g) = (0..2).find(|&g| pinned[g]) {
                        ops.push(op(if rng.chance(0.5) { K::TryAdvance } else { K::Collect }, g as u32, 0, 0, 0));
                    }
                }
                _ => {
                    if let Some(g) = (0..2).find(|&g| pinned[g]) {
                        ops.push(op(K::Reactivate, g as u32, 0, 0, 0));
                    }
                }
            }
        }
        // how the thread leaves: 0 = drop guards then handle, 1 = handle first (guards keep the
        // participant alive), 2 = leave a guard pinned until the very end of the thread
        let mut t = ThreadProg::new(0, ops);
        t.exit_mode = rng.below(3) as u32;
        t.name = "private".into();
        threads.push(t);
    }
    if let Some(s) = cfg.stall.as_mut() {
        s.victim = rng.below(nt as u64) as u32;
    }
    // fault: clock jump to a few ticks before the 63-bit epoch counter wraps
    if Rng::new(seed ^ 0x3A9).chance(0.12) {
        cfg.start_epoch = (1u64 << 63) - 1 - rng.below(5);
    }
    RunDesc { prop: prop.to_string(), family: "ebr-private".into(), seed, cfg, threads, params: J::Null, schedule: None, buggify_script: None }
}

struct Holder(Option<Collector>);
static mut HOLDER: Holder = Holder(None);

#[allow(static_mut_refs)]
fn body(tid: usize, prog: &ThreadProg) {
    // each thread registers its own handle from a clone of the collector
    let handle: LocalHandle = unsafe { HOLDER.0.as_ref().unwrap().clone().register() };
    let mut handle = Some(handle);
    let mut guards: [Option<(circ::Guard, u64)>; 2] = [None, None];
    for (i, o) in prog.ops.iter().enumerate() {
        sched::set_op(i as u32);
        user_yield();
        let g = o.a as usize % 2;
        match o.k {
            K::Pin => {
                if guards[g].is_none() {
                    let gd = handle.as_ref().unwrap().pin();
                    let uid = shadow().guard_created(tid);
                    guards[g] = Some((gd, uid));
                }
            }
            K::Unpin => {
                if let Some((gd, uid)) = guards[g].take() {
                    shadow().guard_released(tid, uid, true);
                    drop(gd);
                }
            }
            K::Defer => {
                if let Some((gd, _)) = guards[g].as_ref() {
                    crate::closures::defer_shape(tid, gd, o.b as usize);
                }
            }
            K::Flush => {
                if let Some((gd, _)) = guards[g].as_ref() {
                    gd.flush();
                }
            }
            K::TryAdvance => {
                if let Some((gd, _)) = guards[g].as_ref() {
                    circ::verif::try_advance(gd);
                }
            }
            K::Collect => {
                if let Some((gd, _)) = guards[g].as_ref() {
                    circ::verif::collect(gd);
                }
            }
            K::Reactivate => {
                if let Some((gd, uid)) = guards[g].as_mut() {
                    let sh = shadow();
                    sh.guard_released(tid, *uid, false);
                    let sole = sh.ucs[tid].guards.len() == 1;
                    sh.ucs[tid].suspended = true;
                    sh.ucs[tid].suspended_uid = *uid;
                    gd.reactivate();
                    let sh = shadow();
                    sh.ucs[tid].suspended = false;
                    if sole {
                        sh.cs_restarted(tid);
                    }
                }
            }
            _ => {}
        }
    }
    sched::set_op(prog.ops.len() as u32);
    user_yield();
    if prog.exit_mode == 1 {
        drop(handle.take());
        user_yield();
    }
    for g in 0..2 {
        if let Some((gd, uid)) = guards[g].take() {
            user_yield();
            shadow().guard_released(tid, uid, true);
            drop(gd);
        }
    }
    drop(handle.take());
}

#[allow(static_mut_refs)]
pub fn run_private(desc: &RunDesc) -> ! {
    crate::runner::init_library(&desc.cfg);
    let n = desc.threads.len();
    let c = Collector::new();
    circ::verif::set_global_epoch(&c, desc.cfg.start_epoch as usize);
    unsafe { HOLDER.0 = Some(c) };
    let mut sh = Shadow::new(n + 1, !0, 0);
    sh.ebr.enable(circ::verif::global_epoch_addr(unsafe { HOLDER.0.as_ref().unwrap() }));
    shadow::install(sh);
    let progs: Arc<Vec<ThreadProg>> = Arc::new(desc.threads.clone());
    let mut specs = Vec::new();
    for (i, t) in desc.threads.iter().enumerate() {
        let progs = progs.clone();
        specs.push(ThreadSpec { phase: t.phase, stack: 1 << 20, name: "private", body: Arc::new(move |tid| body(tid, &progs[i])) });
    }
    let near_wrap = desc.cfg.start_epoch > (1 << 62);
    // last: the final reference to the collector goes away, with whatever is still queued
    specs.push(ThreadSpec {
        phase: 9,
        stack: 1 << 20,
        name: "drop-collector",
        body: Arc::new(move |_tid| {
            if near_wrap {
                sim().fault("clock_near_wrap");
            }
            let pending = shadow().closures.iter().filter(|c| c.executed == 0).count();
            crate::runner::set_extra("fam", J::obj().set("closures_pending_at_collector_drop", pending).set("closures", shadow().closures.len()));
            if pending > 0 {
                sim().probe("collector_dropped_with_garbage_queued");
            }
            // the clock word dies with the collector
            shadow().ebr.enabled = false;
            unsafe { HOLDER.0 = None };
        }),
    });
    let sc = crate::runner::sim_config(desc, n + 1);
    sched::run(sc, Box::new(shadow::RcMonitor), specs, None);
    let sh = shadow();
    sh.check_quiescence(0);
    if desc.cfg.quarantine {
        if let Some(a) = crate::alloc::verify_poison() {
            sh.soft(&desc.prop, "write-after-free", format!("freed memory at {:#x} was written after it was freed", a));
        }
        let df = crate::alloc::DOUBLE_FREE.load(std::sync::atomic::Ordering::SeqCst);
        if df != 0 {
            sh.soft("C15", "double-free", format!("block at {:#x} was freed twice", df));
        }
    }
    let outcome = match sh.soft.first() {
        Some(f) => sched::Outcome::Violation(sched::Violation { prop: f.prop.clone(), kind: "soft".into(), signature: f.signature.clone(), detail: f.detail.clone(), seq: f.seq }),
        None => sched::Outcome::Ok,
    };
    sim().finish(outcome)
}
