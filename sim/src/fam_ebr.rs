//! EBR-CHURN: participants registering and exiting while others defer, flush and advance with
//! small bags — the registry is traversed (and deleted entries unlinked, which itself defers)
//! inside `try_advance` while bags overflow.

use crate::gen::{swarm_cfg, Profile};
use crate::json::J;
use crate::ops::*;
use crate::rng::Rng;

pub fn gen_churn(prop: &str, seed: u64) -> RunDesc {
    let mut rng = Rng::new(seed);
    let mut cfg = RunCfg::default();
    let nlong = 1 + rng.below(3) as usize;
    let nshort = 1 + rng.below(4) as usize;
    swarm_cfg(&mut rng, &mut cfg, nlong + nshort, true);
    cfg.max_objects = *rng.pick(&[2u32, 2, 3, 4, 8]);
    cfg.manual_interval = *rng.pick(&[1u32, 2, 3, 5, 8, 64]);
    cfg.roots = 1;
    cfg.wroots = 1;
    let mut threads = Vec::new();
    let shape = |rng: &mut Rng| rng.below(crate::closures::NSHAPES as u64) as u32;
    for _ in 0..nlong {
        let mut ops = Vec::new();
        let rounds = 2 + rng.below(8);
        for _ in 0..rounds {
            let nested = rng.chance(0.3);
            ops.push(op(K::Pin, 0, 0, 0, 0));
            if nested {
                ops.push(op(K::Pin, 1, 0, 0, 0));
            }
            for _ in 0..rng.below(5) {
                ops.push(op(K::Defer, 0, shape(&mut rng), 0, 0));
            }
            match rng.below(6) {
                0 => ops.push(op(K::Flush, 0, 0, 0, 0)),
                1 => ops.push(op(K::TryAdvance, 0, 0, 0, 0)),
                2 => ops.push(op(K::Collect, 0, 0, 0, 0)),
                3 => ops.push(op(K::Reactivate, 0, 0, 0, 0)),
                _ => {}
            }
            if rng.chance(0.3) {
                ops.push(op(K::New, 0, NONE_SLOT, 0, 0));
                ops.push(op(K::DropRc, 0, 0, 0, 0));
            }
            if nested {
                if rng.chance(0.5) {
                    ops.push(op(K::Unpin, 0, 0, 0, 0));
                    ops.push(op(K::Unpin, 1, 0, 0, 0));
                } else {
                    ops.push(op(K::Unpin, 1, 0, 0, 0));
                    ops.push(op(K::Unpin, 0, 0, 0, 0));
                }
            } else {
                ops.push(op(K::Unpin, 0, 0, 0, 0));
            }
        }
        let mut t = ThreadProg::new(0, ops);
        t.name = "advancer".into();
        threads.push(t);
    }
    for i in 0..nshort {
        let mut ops = vec![op(K::Pin, 0, 0, 0, 0)];
        for _ in 0..rng.below(4) {
            ops.push(op(K::Defer, 0, shape(&mut rng), 0, 0));
        }
        if rng.chance(0.3) {
            ops.push(op(K::Flush, 0, 0, 0, 0));
        }
        if rng.chance(0.7) {
            ops.push(op(K::Unpin, 0, 0, 0, 0));
        }
        // some short-lived threads start later (second wave of registrations)
        let mut t = ThreadProg::new(if i >= 2 && rng.chance(0.5) { 1 } else { 0 }, ops);
        t.name = "short-lived".into();
        if rng.chance(0.2) {
            t.tls_mode = 1 + rng.below(2) as u32;
            t.tls_ops = crate::gen::gen_ops(&mut rng, Profile::Ebr, 3, 1, 1);
        }
        threads.push(t);
    }
    if threads.iter().any(|t| t.phase == 1) {
        let mut t = ThreadProg::new(1, crate::gen::ticker_ops(2 + rng.below(6) as usize));
        t.name = "ticker".into();
        threads.push(t);
    }
    if let Some(s) = cfg.stall.as_mut() {
        s.victim = rng.below(nlong as u64) as u32;
    }
    RunDesc { prop: prop.to_string(), family: "ebr-churn".into(), seed, cfg, threads, params: J::Null, schedule: None, buggify_script: None }
}
