//! EBR-CHURN: participants registering and exiting while others defer, flush and advance with
//! small bags — the registry is traversed (and deleted entries unlinked, which itself defers)
//! inside `try_advance` while bags overflow.

use crate::gen::{swarm_cfg, Profile};
use crate::json::J;
use crate::ops::*;
use crate::rng::Rng;

pub fn gen_churn(prop: &str, seed: u64) -> RunDesc {
    let mut rng = Rng::new(seed);
    let mut cfg = RunCfg::default();
    let nlong = 1 + rng.below(3) as usize;
    let nshort = 1 + rng.below(4) as usize;
    swarm_cfg(&mut rng, &mut cfg, nlong + nshort, true);
    cfg.max_objects = *rng.pick(&[2u32, 2, 3, 4, 8]);
    cfg.manual_interval = *rng.pick(&[1u32, 2, 3, 5, 8, 64]);
    cfg.roots = 1;
    cfg.wroots = 1;
    let mut threads = Vec::new();
    let shape = |rng: &mut Rng| rng.below(crate::closures::NSHAPES as u64) as u32;
    for _ in 0..nlong {
        let mut ops = Vec::new();
        let rounds = 2 + rng.below(8);
        for _ in 0..rounds {
            let nested = rng.chance(0.3);
            ops.push(op(K::Pin, 0, 0, 0, 0));
            if nested {
                ops.push(op(K::Pin, 1, 0, 0, 0));
            }
            for _ in 0..rng.below(5) {
                ops.push(op(K::Defer, 0, shape(&mut rng), 0, 0));
            }
            match rng.below(6) {
                0 => ops.push(op(K::Flush, 0, 0, 0, 0)),
                1 => ops.push(op(K::TryAdvance, 0, 0, 0, 0)),
                2 => ops.push(op(K::Collect, 0, 0, 0, 0)),
                3 => ops.push(op(K::Reactivate, 0, 0, 0, 0)),
                _ => {}
            }
            if rng.chance(0.3) {
                ops.push(op(K::New, 0, NONE_SLOT, 0, 0));
                ops.push(op(K::DropRc, 0, 0, 0, 0));
            }
            if nested {
                if rng.chance(0.5) {
                    ops.push(op(K::Unpin, 0, 0, 0, 0));
                    ops.push(op(K::Unpin, 1, 0, 0, 0));
                } else {
                    ops.push(op(K::Unpin, 1, 0, 0, 0));
                    ops.push(op(K::Unpin, 0, 0, 0, 0));
                }
            } else {
                ops.push(op(K::Unpin, 0, 0, 0, 0));
            }
        }
        let mut t = ThreadProg::new(0, ops);
        t.name = "advancer".into();
        threads.push(t);
    }
    for i in 0..nshort {
        let mut ops = vec![op(K::Pin, 0, 0, 0, 0)];
        for _ in 0..rng.below(4) {
            ops.push(op(K::Defer, 0, shape(&mut rng), 0, 0));
        }
        if rng.chance(0.3) {
            ops.push(op(K::Flush, 0, 0, 0, 0));
        }
        if rng.chance(0.7) {
            ops.push(op(K::Unpin, 0, 0, 0, 0));
        }
        // some short-lived threads start later (second wave of registrations)
        let mut t = ThreadProg::new(if i >= 2 && rng.chance(0.5) { 1 } else { 0 }, ops);
        t.name = "short-lived".into();
        if rng.chance(0.2) {
            t.tls_mode = 1 + rng.below(2) as u32;
            t.tls_ops = crate::gen::gen_ops(&mut rng, Profile::Ebr, 3, 1, 1);
        }
        threads.push(t);
    }
    if threads.iter().any(|t| t.phase == 1) {
        let mut t = ThreadProg::new(1, crate::gen::ticker_ops(2 + rng.below(6) as usize));
        t.name = "ticker".into();
        threads.push(t);
    }
    if let Some(s) = cfg.stall.as_mut() {
        s.victim = rng.below(nlong as u64) as u32;
    }
    RunDesc { prop: prop.to_string(), family: "ebr-churn".into(), seed, cfg, threads, params: J::Null, schedule: None, buggify_script: None }
}

/// EBR-LONGCS: a victim thread keeps an outer critical section open for a long time and does
/// things inside it that must not end it (reactivating an *inner* guard, nested pins, flushes,
/// defers, internal pins of Rc operations, try_advance/collect), while peers defer and drive the
/// epoch clock. Some runs start at epoch 0, 1 or 2.
pub fn gen_longcs(prop: &str, seed: u64) -> RunDesc {
    let mut rng = Rng::new(seed);
    let mut cfg = RunCfg::default();
    let nvictims = 1 + rng.below(2) as usize;
    let npeers = 1 + rng.below(2) as usize;
    swarm_cfg(&mut rng, &mut cfg, nvictims + npeers, true);
    cfg.max_objects = *rng.pick(&[2u32, 3, 4, 8]);
    cfg.manual_interval = *rng.pick(&[1u32, 2, 3, 5, 8]);
    if rng.chance(0.35) {
        cfg.start_epoch = rng.below(3);
    }
    cfg.roots = 1;
    cfg.wroots = 1;
    let shape = |rng: &mut Rng| rng.below(crate::closures::NSHAPES as u64) as u32;
    let mut threads = Vec::new();
    for v in 0..nvictims {
        let mut ops = vec![op(K::Pin, 0, 0, 0, 0)];
        let nested = rng.chance(0.7);
        if nested {
            ops.push(op(K::Pin, 1, 0, 0, 0));
        }
        ops.push(op(K::Signal, 1 + v as u32, 0, 0, 0));
        let n = 3 + rng.below(10);
        for _ in 0..n {
            match rng.below(12) {
                0..=3 if nested => ops.push(op(K::Reactivate, 1, 0, 0, 0)),
                4 | 5 if nested => ops.push(op(K::ReactAfter, 1, rng.below(4) as u32, 0, 0)),
                6 => ops.push(op(K::Flush, 0, 0, 0, 0)),
                7 => ops.push(op(K::Defer, 0, shape(&mut rng), 0, 0)),
                8 => {
                    ops.push(op(K::New, 0, NONE_SLOT, 0, 0));
                    ops.push(op(K::DropRc, 0, 0, 0, 0));
                }
                9 => ops.push(op(K::TryAdvance, 0, 0, 0, 0)),
                10 => ops.push(op(K::Collect, 0, 0, 0, 0)),
                _ => {
                    // a third guard comes and goes
                    ops.push(op(K::Pin, 2, 0, 0, 0));
                    if rng.chance(0.5) {
                        ops.push(op(K::Reactivate, 2, 0, 0, 0));
                    }
                    ops.push(op(K::Unpin, 2, 0, 0, 0));
                }
            }
            if rng.chance(0.5) {
                ops.push(op(K::Await, 10 + rng.below(6) as u32, 0, 0, 0));
            }
        }
        if nested && rng.chance(0.5) {
            ops.push(op(K::Unpin, 1, 0, 0, 0));
        }
        ops.push(op(K::Await, 20, 0, 0, 0));
        ops.push(op(K::Unpin, 0, 0, 0, 0));
        let mut t = ThreadProg::new(0, ops);
        t.name = "victim".into();
        threads.push(t);
    }
    for p in 0..npeers {
        let mut ops = vec![op(K::Await, 1, 0, 0, 0)];
        let rounds = 4 + rng.below(10);
        for r in 0..rounds {
            ops.push(op(K::Pin, 0, 0, 0, 0));
            for _ in 0..1 + rng.below(3) {
                ops.push(op(K::Defer, 0, shape(&mut rng), 0, 0));
            }
            ops.push(op(K::Flush, 0, 0, 0, 0));
            ops.push(op(K::Unpin, 0, 0, 0, 0));
            if p == 0 && r < 6 {
                ops.push(op(K::Signal, 10 + r as u32, 0, 0, 0));
            }
        }
        if p == 0 {
            ops.push(op(K::Signal, 20, 0, 0, 0));
        }
        let mut t = ThreadProg::new(0, ops);
        t.name = "peer".into();
        threads.push(t);
    }
    if let Some(s) = cfg.stall.as_mut() {
        s.victim = (nvictims + rng.below(npeers as u64) as usize) as u32;
    }
    RunDesc { prop: prop.to_string(), family: "ebr-longcs".into(), seed, cfg, threads, params: J::Null, schedule: None, buggify_script: None }
}
