use crate::ops::RunDesc;
pub fn run(_desc: &RunDesc) -> ! {
    unimplemented!()
}
