//! CHAIN (C06, C07): long chains / trees / combs built from a dedicated payload and destroyed
//! by dropping the last reference to the head. C06 measures reclamation latency in *epoch
//! advances* (the simulated clock), C07 the stack the destruction needs, on threads with
//! configurable stack sizes, inside a crash-contained child process.

use std::sync::atomic::{AtomicU64, AtomicUsize, Ordering::*};
use std::sync::Arc;

use circ::{AtomicRc, Rc, RcObject};

use crate::json::J;
use crate::ops::*;
use crate::rng::Rng;
use crate::sched::{self, sim, user_yield, Monitor, Outcome, ThreadSpec, Violation};

static DROPS: AtomicU64 = AtomicU64::new(0);
static LAST_DROP_EPOCH: AtomicU64 = AtomicU64::new(0);
static STACK_MIN: AtomicUsize = AtomicUsize::new(usize::MAX);
static STACK_MAX: AtomicUsize = AtomicUsize::new(0);
static HELD_FROM: AtomicU64 = AtomicU64::new(u64::MAX);
static HELD_VIOLATED: AtomicU64 = AtomicU64::new(u64::MAX);
static MAX_DEPTH_SEEN: AtomicU64 = AtomicU64::new(0);
static REDEFERS: AtomicU64 = AtomicU64::new(0);
static CREATED: AtomicU64 = AtomicU64::new(0);
/// 0: nodes never had a Weak; 1: every node was downgraded once (the Weak is gone again, the
/// WEAKED flag stays); 2: every other node
static WEAKED: AtomicU64 = AtomicU64::new(0);
/// user tag carried by every link of the structure (0 = none)
static LINK_TAG: AtomicU64 = AtomicU64::new(0);
/// pop_edges moves its edges out with swap(null) instead of take()
static POP_VIA_SWAP: AtomicU64 = AtomicU64::new(0);
/// pop_edges hands nothing back (chain-stack only: every node then costs its own grace period)
static POP_NOTHING: AtomicU64 = AtomicU64::new(0);
/// right spines continue through the *third* edge of each node
static THIRD_EDGE: AtomicU64 = AtomicU64::new(0);

/// `W` words of inline payload (0, or 128 = 1 KiB: the payload must not end up on the stack of
/// the recursive destructor)
pub struct CNode<const W: usize> {
    next: [AtomicRc<CNode<W>>; 3],
    id: u64,
    #[allow(dead_code)]
    pad: [u64; W],
}

unsafe impl<const W: usize> RcObject for CNode<W> {
    fn pop_edges(&mut self, out: &mut Vec<Rc<Self>>) {
        if POP_NOTHING.load(Relaxed) != 0 {
            // "It does not need to take all the edges": they are then released one by one when
            // the payload is dropped, each through its own deferred attempt
            return;
        }
        if POP_VIA_SWAP.load(Relaxed) != 0 {
            // the other way of moving an edge out: what comes back is the link as it was written
            out.push(self.next[0].swap(Rc::null(), SeqCst));
            out.push(self.next[1].swap(Rc::null(), SeqCst));
            out.push(self.next[2].swap(Rc::null(), SeqCst));
        } else {
            out.push(self.next[0].take());
            out.push(self.next[1].take());
            out.push(self.next[2].take());
        }
    }
}

impl<const W: usize> Drop for CNode<W> {
    fn drop(&mut self) {
        let probe = 0u8;
        let a = &probe as *const u8 as usize;
        STACK_MIN.fetch_min(a, Relaxed);
        STACK_MAX.fetch_max(a, Relaxed);
        DROPS.fetch_add(1, Relaxed);
        LAST_DROP_EPOCH.store(crate::runner::clock(), Relaxed);
        if self.id >= HELD_FROM.load(Relaxed) && HELD_VIOLATED.load(Relaxed) == u64::MAX {
            HELD_VIOLATED.store(self.id, Relaxed);
        }
    }
}

struct CMon;
impl Monitor for CMon {
    fn event(&mut self, _tid: usize, kind: u32, _a: usize, b: usize, c: usize) {
        if kind == circ::verif::kind::RECLAIM_NOW {
            MAX_DEPTH_SEEN.fetch_max(b as u64, Relaxed);
        }
        if kind == circ::verif::kind::RECLAIM_DEFER && b > 0 {
            REDEFERS.fetch_add(1, Relaxed);
            if std::env::var_os("VERIF_CHAIN_DEBUG").is_some() {
                let st = crate::shadow::read_state(circ::verif::state_addr::<CNode<0>>(_a));
                eprintln!("DEFER depth {} cap={} at epoch {} (mod16 {}): child stamp {} drops so far {}", b, c, crate::runner::clock(), crate::runner::clock() % 16, st >> 60, DROPS.load(Relaxed));
            }
        }
    }
}

const SHAPES: [&str; 16] = ["chain", "chain", "chain", "chain", "chain", "express", "binary-tree", "binary-tree", "comb", "wide-tree", "right-spine", "zig-zag", "comb-right", "comb-right3", "random-tree", "random-tree"];

/// Bound on epoch advances between releasing the head and the last destructor (C06). Measured on
/// the repaired tree over 400 seeds: at most 18 advances for a single 1024-chunk, 30 for two,
/// about 8 per chunk for millions of nodes (a deferred attempt needs 3-4 advances, and stamps
/// whose age is 14..18 mod 16 alias into the "recent" window and cost extra re-deferrals), so
/// this leaves a factor of about two.
pub fn bound(n: u64) -> u64 {
    if WEAKED.load(Relaxed) != 0 {
        return bound_weaked(n);
    }
    24 + 16 * n.div_ceil(1024)
}

/// The same for structures whose nodes were downgraded at some time (sticky WEAKED flag). There
/// every destructed node defers the release of its block, so the cascade itself seals a bag
/// every 8-64 nodes and ticks the clock as it goes; the 4-bit stamps of the nodes further down
/// then age past the unambiguous window in mid-cascade (and a never-written stamp 0 looks recent
/// for 5 of every 16 epochs), and the cascade re-defers about twice per 16 epochs instead of once
/// per 1024 nodes. Measured on the unchanged tree over 400 seeds: up to 102 advances for 1024
/// nodes (right spine, bag size and interval 8), 62 per 1024 nodes at 20 000 nodes; one grace
/// period per node would be 3 072 per 1024 nodes.
pub fn bound_weaked(n: u64) -> u64 {
    48 + 256 * n.div_ceil(1024)
}

/// chain-weak: chains longer than the depth cap with Weak pointers to nodes around every
/// multiple of 1024 (where the cascade re-defers) and elsewhere; once everything is destructed
/// every upgrade must fail (C05).
pub fn gen_weak(prop: &str, seed: u64) -> RunDesc {
    let mut d = gen(prop, seed, false);
    let mut rng = Rng::new(seed ^ 0x77EA);
    let n = *rng.pick(&[1030u64, 1500, 2050, 2500, 3100, 4200]);
    let mut pos: Vec<J> = Vec::new();
    for k in 1..=(n / 1024) {
        for dlt in [-2i64, -1, 0, 1, 2] {
            let p = k as i64 * 1024 + dlt;
            if p >= 0 && (p as u64) < n {
                pos.push(J::Int(p));
            }
        }
    }
    for _ in 0..6 {
        pos.push(J::Int(rng.below(n) as i64));
    }
    if let J::Obj(m) = &mut d.params {
        m.insert("n".into(), J::Int(n as i64));
        m.insert("shape".into(), J::Str("chain".into()));
        m.insert("hold_at".into(), J::Int(-1));
        m.insert("weak_positions".into(), J::Arr(pos));
        m.insert("age_rounds".into(), J::Int(4 + rng.below(8) as i64));
        m.insert("upgrade_parked".into(), J::Bool(rng.chance(0.5)));
    }
    d.family = "chain-weak".into();
    d.cfg.step_cap = 2_000_000 + 60 * n;
    d
}

/// chain-mid: a chain longer than the depth cap whose node at (or next to) the cap has a second
/// incoming link from a global cell. The head is released and its deferred attempt sealed; the
/// clock moves; a reader pins and loads the node from the cell; the cell is cleared during that
/// critical section (count 2 -> 1, nothing deferred); then the old attempt expires and the
/// cascade runs into the node. Whatever the cascade does with a node at its depth cap, the
/// node was unlinked during the reader's critical section and must outlive it (C13, C02).
pub fn gen_mid(prop: &str, seed: u64) -> RunDesc {
    let mut d = gen(prop, seed, false);
    let mut rng = Rng::new(seed ^ 0x31D);
    let n = *rng.pick(&[1030u64, 1500, 2050, 2500, 3100]);
    let at = match rng.below(10) {
        0 => 1023,
        1 => 1025,
        2 if n > 2048 => 2048,
        3 => 1 + rng.below(n - 1),
        _ => 1024,
    };
    if let J::Obj(m) = &mut d.params {
        m.insert("n".into(), J::Int(n as i64));
        m.insert("shape".into(), J::Str("chain".into()));
        m.insert("hold_at".into(), J::Int(at as i64));
        m.insert("mid_reader".into(), J::Bool(true));
        m.insert("clock_moves".into(), J::Int(rng.below(6) as i64));
        m.insert("rounds_under_reader".into(), J::Int(3 + rng.below(6) as i64));
        m.insert("noise_threads".into(), J::Int(0));
        m.insert("payload_words".into(), J::Int(0));
        m.insert("revive_head".into(), J::Int(0));
        m.insert("drop_in_tls".into(), J::Int(0));
        m.insert("age_rounds".into(), J::Int(rng.below(6) as i64));
    }
    d.threads.truncate(1);
    let mut r = ThreadProg::new(0, vec![]);
    r.name = "mid-reader".into();
    d.threads.push(r);
    d.family = "chain-mid".into();
    d.cfg.step_cap = 2_000_000 + 60 * n;
    d
}

pub fn gen(prop: &str, seed: u64, stack: bool) -> RunDesc {
    let mut rng = Rng::new(seed);
    let mut cfg = RunCfg::default();
    cfg.quarantine = false;
    cfg.strategy = 0;
    cfg.p_switch = *rng.pick(&[0.02, 0.1, 0.3]);
    cfg.start_epoch = match rng.below(8) {
        0 => rng.below(4),
        1 => (1u64 << 20) + rng.below(16),
        _ => rng.below(64),
    };
    cfg.max_objects = *rng.pick(&[8u32, 64, 64]);
    cfg.manual_interval = *rng.pick(&[8u32, 64, 64]);
    let shape = rng.below(16); // see SHAPES
    let n: u64 = if stack {
        *rng.pick(&[1000u64, 3000, 5000, 20_000, 100_000, 300_000, 1_000_000, 2_000_000])
    } else {
        match rng.below(12) {
            0 => 1,
            1 => 2,
            2 => 17,
            3 => 128,
            4 => 1023,
            5 => 1024,
            6 => 1025,
            7 => 3000,
            8 => 20_000,
            9 => 2049,
            _ if crate::gen::deep() && rng.chance(0.15) => *rng.pick(&[100_000u64, 300_000, 1_000_000]),
            _ => 1 + rng.below(6000),
        }
    };
    let (n, shape) = if stack && Rng::new(seed ^ 0x9A7).chance(0.2) { (*Rng::new(seed ^ 0x9A8).pick(&[1000u64, 2000]), 0) } else { (n, shape) };
    let age = if stack { 4 + rng.below(4) } else { *rng.pick(&[0u64, 1, 2, 3, 4, 5, 6, 8, 12, 13, 14, 15, 16, 17, 20, 30, 33, 40]) };
    let writer = rng.below(4); // 0 From<Rc> (stamp 0), 1 store, 2 swap, 3 compare_exchange
    let hold = if !stack && shape < 5 && n > 2 && rng.chance(0.4) {
        // anywhere, or right at the depth at which the cascade cuts itself off
        let at_cap: Vec<u64> = [1023u64, 1024, 1025, 2047, 2048, 2049].iter().copied().filter(|&h| h < n).collect();
        if !at_cap.is_empty() && rng.chance(0.35) {
            Some(*rng.pick(&at_cap))
        } else {
            Some(1 + rng.below(n - 1))
        }
    } else {
        None
    };
    let noise = if rng.chance(0.4) { 1 + rng.below(2) } else { 0 };
    let weaked = if !stack && rng.chance(0.3) { 1 + rng.below(2) } else { 0 };
    // stack runs: a third with 1 KiB of inline payload per node
    let payload_words: u64 = if stack && n <= 100_000 && rng.chance(0.5) { 128 } else { 0 };
    // stack runs: a quarter drop the last reference from a thread-local destructor of another
    // thread (same stack size), after that thread's participant handle is gone
    let drop_in_tls: u64 = (stack && rng.chance(0.25)) as u64;
    // links that carry a user tag (marked nodes of a Harris list)
    let link_tag: u64 = if rng.chance(0.2) { *rng.pick(&[1u64, 3, 7]) } else { 0 };
    // the head is revived through a Weak right after its release (and let go again), or only
    // looked at through a WeakSnapshot: the structure is reclaimed all the same
    let revive_head: u64 = if !stack && rng.chance(0.2) { 1 + rng.below(2) } else { 0 };
    // noise threads that only advance the clock (never flush, so they never run a cascade and
    // never hold a bag). Latency is not judged then either: with a clock driven by others the
    // 4-bit stamps of the nodes still to come age past the unambiguous window in mid-cascade and
    // the cascade re-defers (measured on the unchanged tree: up to 108 collection rounds for a
    // 1 022-node comb), so neither advances nor rounds have a bound that is independent of how
    // fast the others tick. Gratuitous deferrals are judged node by node by the C12 oracle.
    let advancers_only = noise > 0 && rng.chance(0.5);
    let stack_kib: u64 = if stack { *rng.pick(&[64u64, 128, 256, 512, 1024, 2048, 2048, 8192]) } else { 2048 };
    let profile = if stack && rng.chance(0.35) { "dev" } else { "sim" };
    cfg.step_cap = 2_000_000 + 60 * n;
    let params = J::obj()
        .set("n", n)
        .set("shape", SHAPES[shape as usize])
        .set("age_rounds", age)
        .set("link_writer", ["from_rc", "store", "swap", "compare_exchange"][writer as usize])
        .set("hold_at", hold.map(|h| h as i64).unwrap_or(-1))
        .set("noise_threads", noise)
        .set("weaked_nodes", weaked)
        .set("payload_words", payload_words)
        .set("drop_in_tls", drop_in_tls)
        .set("link_tag", link_tag)
        .set("pop_via_swap", Rng::new(seed ^ 0x5A9).chance(0.25))
        .set("third_edge", SHAPES[shape as usize] == "right-spine" && Rng::new(seed ^ 0x3E).chance(0.5))
        .set("pop_nothing", stack && Rng::new(seed ^ 0x9A7).chance(0.2))
        .set("revive_head", if SHAPES[shape as usize] == "right-spine" && !stack && Rng::new(seed ^ 0x5E).chance(0.6) { 0 } else { revive_head })
        .set("shared_sentinel", SHAPES[shape as usize] == "right-spine" && !stack && Rng::new(seed ^ 0x5E).chance(0.6))
        .set("noise_only_advances", advancers_only)
        .set("stack_kib", stack_kib)
        .set("profile", profile)
        .set("stack_check", stack)
        .set("crash_tag", if stack { format!("stack<={}KiB/{}", stack_kib, profile) } else { String::new() });
    let mut threads = vec![ThreadProg::new(0, vec![])];
    threads[0].name = "destroyer".into();
    threads[0].stack_kib = stack_kib as u32;
    for _ in 0..noise {
        let mut t = if advancers_only {
            let mut ops = Vec::new();
            for _ in 0..40 + rng.below(160) {
                ops.extend([op(K::Pin, 0, 0, 0, 0), op(K::TryAdvance, 0, 0, 0, 0), op(K::Unpin, 0, 0, 0, 0)]);
            }
            ThreadProg::new(0, ops)
        } else {
            ThreadProg::new(0, crate::gen::ticker_ops(3 + rng.below(10) as usize))
        };
        t.name = "noise".into();
        threads.push(t);
    }
    RunDesc { prop: prop.to_string(), family: if stack { "chain-stack" } else { "chain" }.into(), seed, cfg, threads, params, schedule: None, buggify_script: None }
}

fn link<const W: usize>(parent: &Rc<CNode<W>>, i: usize, child: Rc<CNode<W>>, writer: u64) {
    let cell = &parent.as_ref().unwrap().next[i];
    let g = circ::cs();
    match writer {
        1 => cell.store(child, SeqCst, &g),
        2 => drop(cell.swap(child, SeqCst)),
        _ => {
            let exp = cell.load(SeqCst, &g);
            let _ = cell.compare_exchange(exp, child, SeqCst, SeqCst, &g);
        }
    }
}

fn node<const W: usize>(id: u64, c0: Rc<CNode<W>>, c1: Rc<CNode<W>>, writer: u64) -> Rc<CNode<W>> {
    let t = LINK_TAG.load(Relaxed) as usize;
    let (c0, c1) = if t != 0 { (if c0.is_null() { c0 } else { c0.with_tag(t) }, if c1.is_null() { c1 } else { c1.with_tag(t) }) } else { (c0, c1) };
    let r = node_inner(id, c0, c1, writer);
    let w = WEAKED.load(Relaxed);
    if w == 1 || (w == 2 && id % 2 == 0) {
        drop(r.downgrade());
    }
    r
}

fn node_inner<const W: usize>(id: u64, c0: Rc<CNode<W>>, c1: Rc<CNode<W>>, writer: u64) -> Rc<CNode<W>> {
    CREATED.fetch_add(1, Relaxed);
    if writer == 0 {
        Rc::new(CNode { next: [AtomicRc::from(c0), AtomicRc::from(c1), AtomicRc::null()], id, pad: [id; W] })
    } else {
        let r = Rc::new(CNode { next: [AtomicRc::null(), AtomicRc::null(), AtomicRc::null()], id, pad: [id; W] });
        if !c0.is_null() {
            link(&r, 0, c0, writer);
        }
        if !c1.is_null() {
            link(&r, 1, c1, writer);
        }
        r
    }
}

/// Build a structure of n nodes; returns (head, held interior node or null).
fn build<const W: usize>(shape: &str, n: u64, writer: u64, hold_at: i64, weak_at: &[u64], weaks: &mut Vec<(u64, circ::Weak<CNode<W>>)>, sentinel: &Rc<CNode<W>>) -> (Rc<CNode<W>>, Rc<CNode<W>>) {
    let mut held = Rc::null();
    match shape {
        "binary-tree" | "wide-tree" => {
            // heap layout: node i has children 2i+1, 2i+2 (wide-tree: a degenerate left spine
            // whose nodes all share... no sharing; just a different fill order)
            let mut slots: Vec<Rc<CNode<W>>> = (0..n).map(|_| Rc::null()).collect();
            for i in (0..n as usize).rev() {
                let c0 = if 2 * i + 1 < n as usize { std::mem::take(&mut slots[2 * i + 1]) } else { Rc::null() };
                let c1 = if 2 * i + 2 < n as usize { std::mem::take(&mut slots[2 * i + 2]) } else { Rc::null() };
                slots[i] = node(i as u64, c0, c1, writer);
            }
            (std::mem::take(&mut slots[0]), held)
        }
        "express" => {
            // node i points to i+1 and to i+2 (a skip-list tower of height 2): every node but the
            // first two is reached twice by one cascade
            let mut next1: Rc<CNode<W>> = Rc::null();
            let mut next2: Rc<CNode<W>> = Rc::null();
            for i in (0..n).rev() {
                let me = node(i, next1.clone(), next2, writer);
                next2 = next1;
                next1 = me;
            }
            drop(next2);
            (next1, held)
        }
        "right-spine" | "zig-zag" => {
            // the only edge of node i sits in next[1] (right spine) or alternates (zig-zag), so a
            // null edge precedes the non-null one in pop_edges order
            let mut head: Rc<CNode<W>> = Rc::null();
            for i in (0..n).rev() {
                let right = shape == "right-spine" || i % 2 == 1;
                // (with a sentinel: the first edge of every spine node leads to one shared node that
                // stays owned elsewhere)
                let other = if sentinel.is_null() { Rc::null() } else { sentinel.clone() };
                head = if right && THIRD_EDGE.load(Relaxed) != 0 {
                    // n-ary nodes: the structure goes on through the third edge
                    let r = node(i, other, Rc::null(), writer);
                    if !head.is_null() {
                        link(&r, 2, head, if writer == 0 { 1 } else { writer });
                    }
                    r
                } else if right {
                    node(i, other, head, writer)
                } else {
                    node(i, head, other, writer)
                };
            }
            (head, held)
        }
        "comb-right" | "comb-right3" => {
            // spine on next[1]; next[0] holds a leaf (or a 3-node subtree) that is popped first
            let per = if shape == "comb-right" { 2 } else { 4 };
            let levels = (n / per).max(1);
            let mut head: Rc<CNode<W>> = Rc::null();
            let mut id = n + 10;
            for _ in 0..levels {
                id -= 1;
                let side = if per == 2 {
                    node(id + 1_000_000_000, Rc::null(), Rc::null(), writer)
                } else {
                    let a = node(id + 1_000_000_000, Rc::null(), Rc::null(), writer);
                    let b = node(id + 2_000_000_000, Rc::null(), Rc::null(), writer);
                    node(id + 3_000_000_000, a, b, writer)
                };
                head = node(id, side, head, writer);
            }
            (head, held)
        }
        "random-tree" => {
            // random sparse binary structure: each new node adopts 0-2 of the subtrees built so far
            let mut x = n.wrapping_mul(0x9E37_79B9_7F4A_7C15) | 1;
            let mut next = || {
                x ^= x << 13;
                x ^= x >> 7;
                x ^= x << 17;
                x
            };
            let mut pool: Vec<Rc<CNode<W>>> = Vec::new();
            for i in 0..n {
                let c0 = if !pool.is_empty() && next() % 10 < 6 { pool.swap_remove((next() % pool.len() as u64) as usize) } else { Rc::null() };
                let c1 = if !pool.is_empty() && next() % 10 < 6 { pool.swap_remove((next() % pool.len() as u64) as usize) } else { Rc::null() };
                pool.push(node(i, c0, c1, writer));
            }
            // join what is left into one structure along next[1]
            let mut head: Rc<CNode<W>> = Rc::null();
            let mut i = n;
            while let Some(t) = pool.pop() {
                head = node(i, t, head, writer);
                i += 1;
            }
            (head, held)
        }
        "comb" => {
            // a spine of n/2 nodes, each with a leaf on next[1]
            let spine = (n / 2).max(1);
            let mut head: Rc<CNode<W>> = Rc::null();
            let mut id = n;
            for _ in 0..spine {
                id -= 1;
                let leaf = if id > 0 {
                    id -= 1;
                    node(id + 1_000_000_000, Rc::null(), Rc::null(), writer)
                } else {
                    Rc::null()
                };
                head = node(id, head, leaf, writer);
            }
            (head, held)
        }
        _ => {
            let mut head: Rc<CNode<W>> = Rc::null();
            for i in (0..n).rev() {
                head = node(i, head, Rc::null(), writer);
                if i as i64 == hold_at {
                    held = head.clone();
                }
                if weak_at.contains(&i) {
                    weaks.push((i, head.downgrade()));
                }
            }
            (head, held)
        }
    }
}

/// extra user activity between collection rounds (set per run)
static ROUND_HOOK: std::sync::Mutex<Option<Box<dyn Fn() + Send>>> = std::sync::Mutex::new(None);

fn round() {
    let g = circ::cs();
    g.flush();
    drop(g);
    if let Some(f) = ROUND_HOOK.lock().unwrap().as_ref() {
        f();
    }
}

struct Report {
    rounds: u64,
    e0: u64,
    e1: u64,
}

/// The last reference is dropped by another thread's thread-local destructor, which runs after
/// that thread's participant handle is gone (set once per run; consumed by the first release).
static DROP_IN_TLS: AtomicU64 = AtomicU64::new(0);
/// 1: the head is revived by Weak::upgrade right after its last owner went, and released again;
/// 2: somebody only looks at it through weak.snapshot().upgrade() (consumed by the first release)
static REVIVE: AtomicU64 = AtomicU64::new(0);
/// chain-mid: address of the leaked global cell that holds the second link (an `AtomicRc<CNode<0>>`)
static MID_PTR: AtomicUsize = AtomicUsize::new(0);
static HANDOFF: std::sync::Mutex<Option<Box<dyn FnOnce() + Send>>> = std::sync::Mutex::new(None);

struct TlsDrop(Option<Box<dyn FnOnce() + Send>>);
impl Drop for TlsDrop {
    fn drop(&mut self) {
        if let Some(f) = self.0.take() {
            sim().fault("last_reference_dropped_in_tls_destructor");
            f();
        }
    }
}
thread_local! {
    static TLSD: std::cell::RefCell<TlsDrop> = const { std::cell::RefCell::new(TlsDrop(None)) };
}

/// Body of the thread whose thread-local destructor drops the structure.
fn tls_dropper(tid: usize) {
    TLSD.with(|_| ()); // registered before the participant handle: destroyed after it
    drop(circ::cs());
    sim().await_signal(tid, 1);
    let f = HANDOFF.lock().unwrap().take();
    TLSD.with(|t| t.borrow_mut().0 = f);
}

/// release `head` and run janitor rounds until `target` destructors have run (or give up)
fn release_and_wait<const W: usize>(head: Rc<CNode<W>>, target: u64, max_rounds: u64) -> Report {
    let e0 = crate::runner::clock();
    if DROP_IN_TLS.swap(0, Relaxed) != 0 {
        *HANDOFF.lock().unwrap() = Some(Box::new(move || drop(head)));
        sim().raise_signal(1);
    } else {
        let revive = REVIVE.swap(0, Relaxed);
        if revive != 0 && !head.is_null() {
            let w = head.downgrade();
            drop(head);
            user_yield();
            if revive == 1 {
                if let Some(rc) = w.upgrade() {
                    user_yield();
                    drop(rc);
                }
            } else {
                let g = circ::cs();
                let s = w.snapshot(&g).upgrade();
                let _ = s;
                drop(g);
            }
            drop(w);
        } else {
            drop(head);
        }
    }
    let mut rounds = 0;
    while DROPS.load(Relaxed) < target && rounds < max_rounds {
        round();
        rounds += 1;
    }
    Report { rounds, e0, e1: LAST_DROP_EPOCH.load(Relaxed).max(e0) }
}

fn destroyer<const W: usize>(desc: &RunDesc, out: &mut Vec<(String, String)>, fam: &mut J) {
    let p = &desc.params;
    let n = p.getu("n");
    let shape = p.gets("shape").to_string();
    let writer = ["from_rc", "store", "swap", "compare_exchange"].iter().position(|w| *w == p.gets("link_writer")).unwrap_or(0) as u64;
    let hold_at = p.geti("hold_at");
    WEAKED.store(p.getu("weaked_nodes"), Relaxed);
    DROP_IN_TLS.store(p.getu("drop_in_tls"), Relaxed);
    LINK_TAG.store(p.getu("link_tag"), Relaxed);
    POP_VIA_SWAP.store(p.getb("pop_via_swap") as u64, Relaxed);
    THIRD_EDGE.store(p.getb("third_edge") as u64, Relaxed);
    REVIVE.store(p.getu("revive_head"), Relaxed);
    let stack_check = p.getb("stack_check");
    // With other threads around, a cascade may run on (and re-defer into the local bag of) a
    // thread that is then not scheduled for a long time; reclamation latency is then the
    // scheduler's, not the library's. The bound is judged in runs where the destroyer is alone;
    // runs with noise threads still check conservation and survival of held nodes.
    let judge_latency = p.getu("noise_threads") == 0;
    let mut soft = |sig: &str, det: String| {
        if !out.iter().any(|s| s.0 == sig) {
            out.push((sig.to_string(), det));
        }
    };
    // C07 reference: the stack a 2048-node chain needs (reaches the depth cap)
    let mut ref_span = 0usize;
    if stack_check {
        // (always payload-free nodes: the plateau must not depend on what a node carries inline)
        let (h, _) = build::<0>("chain", 2048, 1, -1, &[], &mut Vec::new(), &Rc::null());
        for _ in 0..5 {
            round();
        }
        let tls_flag = DROP_IN_TLS.swap(0, Relaxed);
        let revive_flag = REVIVE.swap(0, Relaxed);
        let r = release_and_wait(h, 2048, 400);
        DROP_IN_TLS.store(tls_flag, Relaxed);
        REVIVE.store(revive_flag, Relaxed);
        if DROPS.load(Relaxed) != 2048 {
            soft("nodes-not-reclaimed", format!("reference chain: only {} of 2048 nodes destructed after {} rounds", DROPS.load(Relaxed), r.rounds));
        }
        ref_span = STACK_MAX.load(Relaxed).saturating_sub(STACK_MIN.load(Relaxed));
        DROPS.store(0, Relaxed);
        CREATED.store(0, Relaxed);
        STACK_MIN.store(usize::MAX, Relaxed);
        STACK_MAX.store(0, Relaxed);
        MAX_DEPTH_SEEN.store(0, Relaxed);
    }
    POP_NOTHING.store(p.getb("pop_nothing") as u64, Relaxed);
    user_yield();
    let weak_at: Vec<u64> = p.geta("weak_positions").iter().filter_map(|x| x.as_u64()).collect();
    let mut weaks: Vec<(u64, circ::Weak<CNode<W>>)> = Vec::new();
    // shared sentinel (right-spine only): every spine node's first edge leads to it, and between
    // collection rounds somebody clones and drops an owner of it, so its stamp is always recent.
    // It stays owned, so it has nothing to do with how fast the spine is reclaimed.
    let mut sentinel: Rc<CNode<W>> = if p.getb("shared_sentinel") && shape == "right-spine" { node(3_000_000_000, Rc::null(), Rc::null(), writer) } else { Rc::null() };
    let (head, held) = build(&shape, n, writer, hold_at, &weak_at, &mut weaks, &sentinel);
    let total = CREATED.load(Relaxed);
    if !sentinel.is_null() {
        let s2 = sentinel.clone();
        *ROUND_HOOK.lock().unwrap() = Some(Box::new(move || drop(s2.clone())));
        sim().probe("chain_with_shared_sentinel");
    }
    for _ in 0..p.getu("age_rounds") {
        round();
    }
    user_yield();
    let max_rounds = if p.getb("pop_nothing") { 5 * total + 400 } else { 40 * bound(total) + 200 };
    if !held.is_null() && p.getb("mid_reader") {
        let h = hold_at as u64;
        let me = sched::my_tid();
        let mid: &'static AtomicRc<CNode<W>> = Box::leak(Box::new(AtomicRc::from(held)));
        MID_PTR.store(mid as *const _ as usize, Relaxed);
        drop(head);
        round(); // the head's deferred attempt is sealed now
        for _ in 0..p.getu("clock_moves") {
            let g = circ::cs();
            circ::verif::try_advance(&g);
            drop(g);
            user_yield();
        }
        sim().raise_signal(2);
        sim().await_signal(me, 3);
        // the reader is pinned and has loaded the node from the cell
        HELD_FROM.store(h, Relaxed);
        {
            let g = circ::cs();
            drop(mid.swap(Rc::null(), SeqCst));
            drop(g);
        }
        let mut rounds = 0u64;
        for _ in 0..p.getu("rounds_under_reader") {
            round();
            rounds += 1;
        }
        if DROPS.load(Relaxed) >= h.min(1024) {
            sim().probe("cascade_ran_under_mid_reader");
        }
        if HELD_VIOLATED.load(Relaxed) != u64::MAX {
            soft("reader-lost-unlinked-node", format!("node {} of a {}-node chain was destructed inside the critical section of a reader that had loaded node {} from a second link; that link was cleared (and the chain's head attempt ran) during this critical section", HELD_VIOLATED.load(Relaxed), total, h));
        }
        HELD_FROM.store(u64::MAX, Relaxed);
        sim().raise_signal(4);
        user_yield();
        while DROPS.load(Relaxed) < total && rounds < max_rounds {
            round();
            rounds += 1;
        }
        fam.put("rounds", rounds);
    } else if !held.is_null() {
        let h = hold_at as u64;
        HELD_FROM.store(h, Relaxed);
        let r = release_and_wait(head, h, max_rounds);
        // a few more rounds: nothing at or behind the held node may be destructed
        for _ in 0..8 {
            round();
        }
        let d = DROPS.load(Relaxed);
        if HELD_VIOLATED.load(Relaxed) != u64::MAX || d > h {
            soft("held-node-destructed", format!("node {} (still referenced from elsewhere) or a node behind it was destructed: {} destructors ran, held from {}", HELD_VIOLATED.load(Relaxed), d, h));
        } else if d < h {
            soft("C06-prefix-not-reclaimed", format!("only {} of the {} nodes before the held node were destructed after {} rounds", d, h, r.rounds));
        } else {
            let adv = r.e1 - r.e0;
            fam.put("prefix_advances", adv);
            if judge_latency && adv > bound(h) {
                soft("latency-exceeds-bound", format!("{} nodes before a held node needed {} epoch advances (bound {})", h, adv, bound(h)));
            }
        }
        HELD_FROM.store(u64::MAX, Relaxed);
        let r2 = release_and_wait(held, total, max_rounds);
        let adv2 = r2.e1 - r2.e0;
        fam.put("suffix_advances", adv2);
        if judge_latency && DROPS.load(Relaxed) == total && adv2 > bound(total - h) {
            soft("latency-exceeds-bound", format!("suffix of {} nodes needed {} epoch advances after its holder let go (bound {})", total - h, adv2, bound(total - h)));
        }
        fam.put("rounds", r.rounds + r2.rounds);
    } else if !weaks.is_empty() && total > 1030 && p.getb("upgrade_parked") {
        // chain-weak variant: once the cascade has parked the node at its depth cap (count zero,
        // not destructed, a new attempt deferred), somebody upgrades the Weak pointers around
        // that position and keeps what it gets: from then on those nodes and everything behind
        // them are owned again and must survive until they are let go
        drop(head);
        let mut rounds = 0u64;
        let mut kept: Vec<(u64, Rc<CNode<W>>)> = Vec::new();
        let mut tried = false;
        while DROPS.load(Relaxed) < total && rounds < max_rounds {
            round();
            rounds += 1;
            let dr = DROPS.load(Relaxed);
            if !tried && dr >= 1000 && dr < 1100 {
                tried = true;
                for (pos, w) in &weaks {
                    if (1020..=1030).contains(pos) {
                        user_yield();
                        if let Some(rc) = w.upgrade() {
                            kept.push((*pos, rc));
                        }
                    }
                }
                if let Some(first) = kept.iter().map(|k| k.0).min() {
                    HELD_FROM.store(first, Relaxed);
                    sim().probe("upgraded_node_parked_at_depth_cap");
                }
                if kept.is_empty() {
                    continue;
                }
                for _ in 0..12 {
                    round();
                }
                if HELD_VIOLATED.load(Relaxed) != u64::MAX {
                    soft("held-node-destructed", format!("node {} was destructed although Weak::upgrade had returned an owner of node {} (parked at the cascade's depth cap) before", HELD_VIOLATED.load(Relaxed), kept.iter().map(|k| k.0).min().unwrap()));
                }
                HELD_FROM.store(u64::MAX, Relaxed);
                for (_, rc) in kept.drain(..) {
                    drop(rc);
                }
            }
        }
        fam.put("rounds", rounds);
    } else {
        let own = if sentinel.is_null() { total } else { total - 1 };
        let r = release_and_wait(head, own, max_rounds);
        let adv = r.e1 - r.e0;
        if !sentinel.is_null() {
            // now the sentinel itself
            *ROUND_HOOK.lock().unwrap() = None;
            let s = std::mem::replace(&mut sentinel, Rc::null());
            let _ = release_and_wait(s, total, max_rounds);
        }
        fam.put("advances", adv);
        fam.put("rounds", r.rounds);
        fam.put("bound", bound(total));
        if judge_latency && DROPS.load(Relaxed) == total && adv > bound(total) && !stack_check {
            soft("latency-exceeds-bound", format!("{} of {} nodes ({}, links by {}, aged {} rounds) needed {} epoch advances after the head was released (bound {})", shape, total, shape, p.gets("link_writer"), p.getu("age_rounds"), adv, bound(total)));
        }
    }
    for _ in 0..6 {
        round();
    }
    // C05: every node has been destructed, so no weak pointer may upgrade any more
    if DROPS.load(Relaxed) == total {
        for (pos, w) in &weaks {
            if let Some(rc) = w.upgrade() {
                soft("upgrade-after-destruct/chain-node", format!("Weak::upgrade succeeded on chain node {} (of {}) after its destructor ran; the cascade re-defers at multiples of 1024", pos, total));
                std::mem::forget(rc);
            }
        }
        fam.put("weak_upgrades_checked", weaks.len());
    }
    drop(weaks);
    for _ in 0..6 {
        round();
    }
    let d = DROPS.load(Relaxed);
    if d != total {
        soft("nodes-not-reclaimed", format!("{} of {} nodes destructed at the end (each must be destructed exactly once)", d, total));
    }
    let span = STACK_MAX.load(Relaxed).saturating_sub(STACK_MIN.load(Relaxed));
    fam.put("stack_span_bytes", span);
    fam.put("ref_span_bytes", ref_span);
    fam.put("max_depth", MAX_DEPTH_SEEN.load(Relaxed));
    fam.put("redefers", REDEFERS.load(Relaxed));
    fam.put("nodes", total);
    if stack_check && ref_span > 0 && span > ref_span + ref_span / 8 + 4096 {
        soft("stack-grows-with-size", format!("destroying {} nodes ({}) used {} bytes of stack, a 2048-node chain {} bytes: stack use is not bounded by the depth cap", total, shape, span, ref_span));
    }
    if MAX_DEPTH_SEEN.load(Relaxed) > 1024 {
        soft("recursion-deeper-than-cap", format!("cascade recursion reached depth {}", MAX_DEPTH_SEEN.load(Relaxed)));
    }
}

pub fn run(desc: &RunDesc) -> ! {
    crate::runner::init_library(&desc.cfg);
    let d = Arc::new(desc.clone());
    let result: Arc<std::sync::Mutex<(Vec<(String, String)>, J)>> = Arc::new(std::sync::Mutex::new((Vec::new(), J::obj())));
    let mut specs = Vec::new();
    {
        let d = d.clone();
        let result = result.clone();
        specs.push(ThreadSpec {
            phase: 0,
            stack: (desc.threads[0].stack_kib as usize) << 10,
            name: "destroyer",
            body: Arc::new(move |_tid| {
                let mut out = Vec::new();
                let mut fam = J::obj();
                if d.params.getu("payload_words") >= 128 {
                    destroyer::<128>(&d, &mut out, &mut fam);
                } else {
                    destroyer::<0>(&d, &mut out, &mut fam);
                }
                *result.lock().unwrap() = (out, fam);
            }),
        });
    }
    if desc.params.getu("drop_in_tls") != 0 {
        specs.push(ThreadSpec { phase: 0, stack: (desc.threads[0].stack_kib as usize) << 10, name: "tls-dropper", body: Arc::new(tls_dropper) });
    }
    if desc.params.getb("mid_reader") {
        specs.push(ThreadSpec {
            phase: 0,
            stack: 1 << 20,
            name: "mid-reader",
            body: Arc::new(move |tid| {
                sim().await_signal(tid, 2);
                let g = circ::cs();
                let mid = unsafe { &*(MID_PTR.load(Relaxed) as *const AtomicRc<CNode<0>>) };
                let s = mid.load(SeqCst, &g);
                let _ = s.as_ref().map(|n| n.id);
                sim().raise_signal(3);
                sim().await_signal(tid, 4);
                drop(g);
            }),
        });
    }
    for t in desc.threads.iter().skip(1).filter(|t| t.name != "mid-reader") {
        let ops = t.ops.clone();
        specs.push(ThreadSpec {
            phase: 0,
            stack: 1 << 20,
            name: "noise",
            body: Arc::new(move |_tid| {
                let mut g: Option<circ::Guard> = None;
                for (i, o) in ops.iter().enumerate() {
                    sched::set_op(i as u32);
                    user_yield();
                    match o.k {
                        K::Pin => g = Some(circ::cs()),
                        K::Flush => {
                            if let Some(g) = &g {
                                g.flush()
                            }
                        }
                        K::Unpin => g = None,
                        K::TryAdvance => {
                            if let Some(g) = &g {
                                circ::verif::try_advance(g);
                            }
                        }
                        _ => {}
                    }
                }
            }),
        });
    }
    let n = specs.len();
    let sc = crate::runner::sim_config(desc, n);
    sched::run(sc, Box::new(CMon), specs, Some(crate::runner::clock));
    let (softs, fam) = result.lock().unwrap().clone();
    let prop = desc.prop.clone();
    crate::runner::set_extra("fam", fam);
    let attributed: Vec<(String, String, String)> = softs
        .iter()
        .map(|(s, d)| {
            let p = if s.starts_with("reader-lost") { "C13" } else if s.starts_with("upgrade") { "C05" } else if s.starts_with("stack") || s.starts_with("recursion") { "C07" } else if s.starts_with("latency") || s.starts_with("held") || s.starts_with("C06") { "C06" } else { prop.as_str() };
            (p.to_string(), format!("{}/{}", p, s), d.clone())
        })
        .collect();
    crate::runner::set_extra("soft", J::Arr(attributed.iter().map(|(p, s, d)| J::obj().set("prop", p.as_str()).set("props", J::Arr(vec![J::Str(p.clone())])).set("signature", s.as_str()).set("detail", d.as_str()).set("seq", 0)).collect()));
    let outcome = match attributed.first() {
        Some((p, s, d)) => Outcome::Violation(Violation { prop: p.clone(), kind: "soft".into(), signature: s.clone(), detail: d.clone(), seq: sim().seq }),
        None => Outcome::Ok,
    };
    sim().finish(outcome)
}
