//! LIST-TRAV (C18): the participant registry's lock-free list (through the shim) under
//! concurrent inserts, logical deletes and traversals; oracle over the recorded history.

use std::collections::BTreeMap;
use std::sync::Arc;

use circ::verif::{VElemRef, VList};

use crate::gen::swarm_cfg;
use crate::json::J;
use crate::ops::*;
use crate::rng::Rng;
use crate::sched::{self, sim, user_yield, Monitor, Outcome, ThreadSpec, Violation};

#[derive(Clone, Debug)]
enum LEv {
    Ins { id: u64, inv: u64, ret: u64 },
    Del { id: u64, inv: u64, ret: u64 },
    Trav { tid: usize, inv: u64, ret: u64, visited: Vec<u64>, stalls: usize, stop: bool },
}

static mut LHIST: Vec<LEv> = Vec::new();
static mut FINALIZED: Vec<(u64, u64)> = Vec::new(); // (id, seq)
static mut SOFT: Vec<(String, String)> = Vec::new();

struct LMon;
impl Monitor for LMon {
    #[allow(static_mut_refs)]
    fn event(&mut self, _tid: usize, kind: u32, a: usize, _b: usize, _c: usize) {
        if kind == circ::verif::kind::LIST_FINALIZE {
            unsafe { FINALIZED.push((a as u64, sim().seq)) };
        }
    }
    fn use_after_free(&mut self, _tid: usize, site: u32, addr: usize) -> (String, String) {
        ("C18".into(), format!("list entry at {:#x} accessed after it was freed ({})", addr, sched::site_name(site)))
    }
}

pub fn gen(prop: &str, seed: u64) -> RunDesc {
    let mut rng = Rng::new(seed);
    let mut cfg = RunCfg::default();
    let nt = 2 + rng.below(4) as usize;
    swarm_cfg(&mut rng, &mut cfg, nt, true);
    if cfg.strategy == 2 {
        cfg.hot_mask = (1 << 8) | if rng.chance(0.5) { 1 << 9 } else { 0 };
    }
    cfg.buggify_p = if rng.chance(0.4) { 0.3 } else { 0.0 };
    let mut threads = Vec::new();
    for _ in 0..nt {
        let n = 3 + rng.below(10) as usize;
        let mut ops = Vec::new();
        let mut inserted = 0u32;
        let mut deleted: Vec<u32> = Vec::new();
        let hold = rng.chance(0.3);
        if hold {
            ops.push(op(K::Pin, 0, 0, 0, 0));
        }
        for _ in 0..n {
            match rng.below(10) {
                0..=3 => {
                    ops.push(op(K::LIns, inserted, 0, 0, 0));
                    inserted += 1;
                }
                4..=6 => {
                    let cand: Vec<u32> = (0..inserted).filter(|i| !deleted.contains(i)).collect();
                    if !cand.is_empty() {
                        let e = cand[rng.below(cand.len() as u64) as usize];
                        deleted.push(e);
                        ops.push(op(K::LDel, e, 0, 0, 0));
                    }
                }
                _ => ops.push(op(K::LTrav, rng.chance(0.6) as u32, 0, 0, 0)),
            }
        }
        if hold {
            ops.push(op(K::Unpin, 0, 0, 0, 0));
        }
        let mut t = ThreadProg::new(0, ops);
        t.name = "list".into();
        threads.push(t);
    }
    if rng.chance(0.3) {
        let mut t = ThreadProg::new(0, crate::gen::ticker_ops(2 + rng.below(6) as usize));
        t.name = "ticker".into();
        threads.push(t);
    }
    if let Some(s) = cfg.stall.as_mut() {
        s.victim = rng.below(nt as u64) as u32;
    }
    RunDesc { prop: prop.to_string(), family: "list".into(), seed, cfg, threads, params: J::Null, schedule: None, buggify_script: None }
}

#[allow(static_mut_refs)]
fn body(tid: usize, l: &'static VList, prog: &ThreadProg) {
    let mut guard: Option<circ::Guard> = None;
    let mut elems: BTreeMap<u32, (VElemRef, bool)> = BTreeMap::new();
    for (i, o) in prog.ops.iter().enumerate() {
        sched::set_op(i as u32);
        user_yield();
        match o.k {
            K::Pin => {
                if guard.is_none() {
                    guard = Some(circ::cs());
                }
            }
            K::Unpin => guard = None,
            K::Flush => {
                if let Some(g) = &guard {
                    g.flush();
                }
            }
            K::LIns | K::LDel | K::LTrav => {
                let tmp;
                let g = match &guard {
                    Some(g) => g,
                    None => {
                        tmp = circ::cs();
                        &tmp
                    }
                };
                let inv = sim().seq;
                match o.k {
                    K::LIns => {
                        if elems.contains_key(&o.a) {
                            continue;
                        }
                        let id = ((tid as u64) << 16) | o.a as u64;
                        let r = l.insert(id as usize, g);
                        elems.insert(o.a, (r, false));
                        unsafe { LHIST.push(LEv::Ins { id, inv, ret: sim().seq }) };
                    }
                    K::LDel => {
                        if let Some((r, del)) = elems.get_mut(&o.a) {
                            if !*del {
                                *del = true;
                                let id = ((tid as u64) << 16) | o.a as u64;
                                unsafe { l.delete(*r, g) };
                                unsafe { LHIST.push(LEv::Del { id, inv, ret: sim().seq }) };
                            }
                        }
                    }
                    _ => {
                        let t = l.traverse(o.a != 0, g);
                        unsafe { LHIST.push(LEv::Trav { tid, inv, ret: sim().seq, visited: t.visited.iter().map(|&x| x as u64).collect(), stalls: t.stalls, stop: o.a != 0 }) };
                    }
                }
            }
            _ => {}
        }
    }
    sched::set_op(prog.ops.len() as u32);
    // like a participant at thread exit: delete what is still registered
    for (a, (r, del)) in elems.iter_mut() {
        if !*del {
            user_yield();
            let g = circ::cs();
            let inv = sim().seq;
            let id = ((tid as u64) << 16) | *a as u64;
            unsafe { l.delete(*r, &g) };
            unsafe { LHIST.push(LEv::Del { id, inv, ret: sim().seq }) };
            *del = true;
        }
    }
    drop(guard);
}

#[allow(static_mut_refs)]
fn soft(sig: &str, det: String) {
    unsafe {
        if !SOFT.iter().any(|s| s.0 == sig) {
            SOFT.push((sig.to_string(), det));
        }
    }
}

fn name(id: u64) -> String {
    format!("t{}.e{}", id >> 16, id & 0xFFFF)
}

#[allow(static_mut_refs)]
pub fn run(desc: &RunDesc) -> ! {
    crate::runner::init_library(&desc.cfg);
    let l: &'static VList = Box::leak(Box::new(VList::new()));
    let progs: Arc<Vec<ThreadProg>> = Arc::new(desc.threads.clone());
    let mut specs = Vec::new();
    for (i, t) in desc.threads.iter().enumerate() {
        let progs = progs.clone();
        specs.push(ThreadSpec { phase: t.phase, stack: 1 << 20, name: "l", body: Arc::new(move |tid| body(tid, l, &progs[i])) });
    }
    let n = desc.threads.len();
    specs.push(ThreadSpec {
        phase: 9,
        stack: 1 << 20,
        name: "final-traversal",
        body: Arc::new(move |tid| {
            // a final solo traversal unlinks every deleted entry
            for k in 0..3 {
                sched::set_op(k);
                let g = circ::cs();
                let inv = sim().seq;
                let t = l.traverse(false, &g);
                unsafe { LHIST.push(LEv::Trav { tid, inv, ret: sim().seq, visited: t.visited.iter().map(|&x| x as u64).collect(), stalls: t.stalls, stop: false }) };
                drop(g);
            }
            for _ in 0..8 {
                let g = circ::cs();
                g.flush();
                drop(g);
            }
        }),
    });
    let sc = crate::runner::sim_config(desc, n + 1);
    sched::run(sc, Box::new(LMon), specs, Some(crate::runner::clock));
    // ---- oracle over the recorded history ----
    let hist: Vec<LEv> = unsafe { LHIST.clone() };
    let fin: Vec<(u64, u64)> = unsafe { FINALIZED.clone() };
    let mut ins: BTreeMap<u64, (u64, u64)> = BTreeMap::new();
    let mut del: BTreeMap<u64, (u64, u64)> = BTreeMap::new();
    for e in &hist {
        match e {
            LEv::Ins { id, inv, ret } => {
                ins.insert(*id, (*inv, *ret));
            }
            LEv::Del { id, inv, ret } => {
                del.insert(*id, (*inv, *ret));
            }
            _ => {}
        }
    }
    let mut fin_seq: BTreeMap<u64, u64> = BTreeMap::new();
    for (id, s) in &fin {
        if fin_seq.contains_key(id) {
            soft("finalized-twice", format!("entry {} was unlinked and finalized twice (seq {} and {})", name(*id), fin_seq[id], s));
        }
        fin_seq.entry(*id).or_insert(*s);
        match del.get(id) {
            Some((dinv, _)) if dinv <= s => {}
            _ => soft("finalized-undeleted", format!("entry {} was finalized at seq {} without having been deleted", name(*id), s)),
        }
    }
    let mut complete_traversals = 0u64;
    let mut stalled_traversals = 0u64;
    let mut overlapping = 0u64;
    for e in &hist {
        if let LEv::Trav { tid, inv, ret, visited, stalls, stop } = e {
            if *stalls == 0 {
                complete_traversals += 1;
                for (id, (_, iret)) in &ins {
                    let live_throughout = iret < inv && del.get(id).map(|(dinv, _)| dinv > ret).unwrap_or(true);
                    if live_throughout && !visited.contains(id) {
                        soft(
                            "traversal-missed-element",
                            format!("traversal by t{} [{}..{}] reported no stall but did not visit {} (inserted by seq {}, not deleted before the traversal ended); visited {:?}", tid, inv, ret, name(*id), iret, visited.iter().map(|x| name(*x)).collect::<Vec<_>>()),
                        );
                    }
                }
                let mut v = visited.clone();
                v.sort();
                if v.windows(2).any(|w| w[0] == w[1]) {
                    soft("visited-twice-without-stall", format!("traversal by t{} [{}..{}] visited an entry twice without a stall", tid, inv, ret));
                }
            } else {
                stalled_traversals += 1;
                if *stop && *stalls > 1 {
                    soft("harness", "stop_on_stall traversal reported several stalls".into());
                }
            }
            if ins.values().any(|(i, r)| i <= ret && r >= inv) || del.values().any(|(i, r)| i <= ret && r >= inv) {
                overlapping += 1;
            }
            for id in visited {
                match ins.get(id) {
                    None => soft("visited-unknown-element", format!("traversal by t{} visited {:#x} which was never inserted (freed memory?)", tid, id)),
                    Some((iinv, _)) if iinv > ret => soft("visited-before-insert", format!("traversal by t{} [{}..{}] visited {} inserted later", tid, inv, ret, name(*id))),
                    _ => {}
                }
                if let Some(f) = fin_seq.get(id) {
                    if f < inv {
                        soft("visited-after-finalize", format!("traversal by t{} [{}..{}] visited {} which was unlinked and finalized at seq {}", tid, inv, ret, name(*id), f));
                    }
                }
            }
        }
    }
    // after the final solo traversals every deleted entry has been finalized exactly once
    for id in del.keys() {
        if !fin_seq.contains_key(id) {
            soft("deleted-never-finalized", format!("entry {} was deleted but never unlinked/finalized, even by the final solo traversals", name(*id)));
        }
    }
    let df = crate::alloc::DOUBLE_FREE.load(std::sync::atomic::Ordering::SeqCst);
    if df != 0 {
        soft("double-free", format!("block at {:#x} was freed twice", df));
    }
    if desc.cfg.quarantine {
        if let Some(a) = crate::alloc::verify_poison() {
            soft("write-after-free", format!("freed memory at {:#x} was written after it was freed", a));
        }
    }
    crate::runner::set_extra("fam", J::obj().set("list_inserts", ins.len()).set("list_deletes", del.len()).set("complete_traversals", complete_traversals).set("stalled_traversals", stalled_traversals).set("traversals_overlapping_updates", overlapping).set("finalized", fin.len()));
    let softs = unsafe { SOFT.clone() };
    crate::runner::set_extra("soft", J::Arr(softs.iter().map(|(s, d)| J::obj().set("prop", "C18").set("props", J::Arr(vec![J::Str("C18".into())])).set("signature", format!("C18/{}", s)).set("detail", d.as_str()).set("seq", 0)).collect()));
    let outcome = match softs.first() {
        Some((s, d)) => Outcome::Violation(Violation { prop: "C18".into(), kind: "soft".into(), signature: format!("C18/{}", s), detail: d.clone(), seq: sim().seq }),
        None => Outcome::Ok,
    };
    sim().finish(outcome)
}
