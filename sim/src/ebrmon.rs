//! Mirror of the epoch-based-reclamation layer: the clock and who is pinned (validated) where.
//! Serves C14 (monotone clock, a pinned participant sees at most one advance).

use std::collections::BTreeMap;

use circ::verif::kind;

use crate::sched::sim;

#[derive(Default)]
pub struct LocalMirror {
    pub validated: bool,
    pub tid: usize,
    pub max_lag_seen: u64,
}

#[derive(Default)]
pub struct EbrMirror {
    pub enabled: bool,
    pub global_addr: usize,
    pub last_global: u64,
    pub locals: BTreeMap<usize, LocalMirror>,
    /// participants that have been finalized (their records must be unlinked and freed later)
    pub finalized: Vec<usize>,
    /// participants registered by the fallback path of a thread that is already running its
    /// thread-local destructors
    pub tls_locals: std::collections::BTreeSet<usize>,
    /// how many entries `finalized` had when the final collection rounds began, and the clock then
    pub finalized_at_janitor_start: usize,
    pub janitor_clock0: u64,
    /// an injected panic unwound out of a collection: what else was in that bag is lost
    pub bag_lost_to_panic: bool,
    pub n_checks: u64,
    pub n_pinned_across_advance: u64,
    pub n_pin_retry: u64,
    pub n_repinned: u64,
    pub n_advance_refused: u64,
    pub n_registered: u64,
    pub n_finalize_nonempty: u64,
    pub pending_soft: Vec<(String, String)>,
}

/// the clock is a 63-bit counter (bit 0 of the word is the pin flag) and wraps
const CLOCK_MASK: u64 = u64::MAX >> 1;

fn peek_global(addr: usize) -> u64 {
    (crate::shadow::read_word(addr) >> 1) as u64
}

impl EbrMirror {
    pub fn enable(&mut self, global_addr: usize) {
        self.enabled = true;
        self.global_addr = global_addr;
        self.last_global = peek_global(global_addr);
    }

    pub fn on_step(&mut self, _tid: usize, _site: u32) {
        if !self.enabled {
            return;
        }
        let g = peek_global(self.global_addr);
        if g != self.last_global {
            if g != self.last_global.wrapping_add(1) & CLOCK_MASK {
                let det = format!("global epoch moved from {} to {} in one step", self.last_global, g);
                // not fatal for the run: other oracles (C13) may still have something to say
                crate::shadow::shadow().soft("C14", if g.wrapping_sub(self.last_global) & CLOCK_MASK > CLOCK_MASK / 2 { "clock-decreased" } else { "clock-jumped" }, det);
            }
            self.last_global = g;
        }
        for (&local, m) in self.locals.iter_mut() {
            if !m.validated {
                continue;
            }
            let p = unsafe { circ::verif::peek_local(local) };
            if p.epoch_word & 1 == 0 {
                m.validated = false;
                continue;
            }
            let e = (p.epoch_word >> 1) as u64;
            self.n_checks += 1;
            let lag = g.wrapping_sub(e) & CLOCK_MASK;
            if lag == 1 && m.max_lag_seen == 0 {
                self.n_pinned_across_advance += 1;
            }
            if lag > m.max_lag_seen {
                m.max_lag_seen = lag;
            }
            if lag > 1 {
                let det = format!(
                    "participant of t{} is pinned (validated) at epoch {} while the global epoch is {}",
                    m.tid, e, g
                );
                self.pending_soft.push(("pinned-sees-two-advances".to_string(), det));
                m.validated = false;
            }
        }
    }

    /// The final collection rounds begin: everything finalized so far has to be unlinked by their
    /// first complete scan of the registry and freed a grace period later.
    pub fn mark_janitor_start(&mut self) {
        self.finalized_at_janitor_start = self.finalized.len();
        self.janitor_clock0 = if self.enabled { peek_global(self.global_addr) } else { 0 };
    }

    /// records finalized before the final rounds began whose memory has not been freed
    pub fn unfreed_records(&self) -> Vec<usize> {
        self.finalized[..self.finalized_at_janitor_start.min(self.finalized.len())].iter().copied().filter(|&a| crate::alloc::in_arena(a) && !crate::alloc::is_freed(a)).collect()
    }

    pub fn clock_moved_since_janitor_start(&self) -> u64 {
        if !self.enabled {
            return 0;
        }
        peek_global(self.global_addr).wrapping_sub(self.janitor_clock0) & CLOCK_MASK
    }

    pub fn pre_access(&mut self, _tid: usize, _site: u32, _addr: usize, _a: usize, _b: usize) {}

    pub fn take_soft(&mut self) -> Vec<(String, String)> {
        std::mem::take(&mut self.pending_soft)
    }

    pub fn event(&mut self, tid: usize, k: u32, a: usize, _b: usize, _c: usize) {
        match k {
            kind::PINNED => {
                let m = self.locals.entry(a).or_default();
                m.validated = true;
                m.tid = tid;
                m.max_lag_seen = 0;
            }
            kind::PIN_RETRY => {
                self.n_pin_retry += 1;
                sim().probe("pin_validation_retry");
            }
            kind::REPINNED => {
                self.n_repinned += 1;
                if let Some(m) = self.locals.get_mut(&a) {
                    m.max_lag_seen = 0;
                }
                sim().probe("repin_without_collect_moved");
            }
            kind::ADVANCE_REFUSED => {
                self.n_advance_refused += 1;
                sim().probe(if a == 0 { "advance_refused_lagging" } else { "advance_refused_stalled" });
            }
            kind::REGISTERED => {
                self.n_registered += 1;
                if sim().threads.get(tid).map(|t| t.exiting).unwrap_or(false) {
                    sim().probe("with_handle_fallback_registration");
                    self.tls_locals.insert(a);
                }
            }
            kind::FINALIZE => {
                self.locals.remove(&a);
                self.finalized.push(a);
                if _b != 0 {
                    self.n_finalize_nonempty += 1;
                    sim().probe("finalize_with_nonempty_bag");
                    sim().fault("exit_pending");
                }
            }
            kind::BAG_SEALED => sim().probe("bag_sealed"),
            _ => {}
        }
    }
}
