//! CLIENT: the repository's own client data structures (Harris's list-based map and the
//! DoubleLink queue, ported from /repo/tests) run under the simulator with reference models.
//! Oracles are black-box: every node a client dereferences through a Snapshot inside its critical
//! section must not have been dropped (C02; C01 through an Rc), every node created is dropped
//! exactly once after the structure is gone (C04), and the recorded histories are linearizable
//! as a map / FIFO queue (C08: the structures are built from AtomicRc cell operations only).

use std::collections::{BTreeMap, HashSet, VecDeque};
use std::sync::atomic::{AtomicU64, Ordering, Ordering::*};
use std::sync::Arc;

use circ::{AtomicRc, Guard, Rc, RcObject, Snapshot, Weak};

use crate::gen::swarm_cfg;
use crate::json::J;
use crate::ops::*;
use crate::rng::Rng;
use crate::sched::{self, sim, user_yield, Monitor, Outcome, ThreadSpec, Violation};

const ALIVE: u64 = 0xA11F_E000_0000_0001;
static CREATED: AtomicU64 = AtomicU64::new(0);
static DROPPED: AtomicU64 = AtomicU64::new(0);
static DOUBLE_DROP: AtomicU64 = AtomicU64::new(0);
static mut SOFT: Vec<(String, String, String)> = Vec::new();

#[allow(static_mut_refs)]
fn soft(prop: &str, sig: &str, det: String) {
    unsafe {
        if !SOFT.iter().any(|s| s.1 == sig) {
            SOFT.push((prop.to_string(), sig.to_string(), det));
        }
    }
}

/// The client is about to read a node it reached through a live Snapshot (or an Rc it owns).
fn chk(alive: &AtomicU64, what: &str, via_rc: bool) {
    if alive.load(Relaxed) != ALIVE {
        let prop = if via_rc { "C01" } else { "C02" };
        let det = format!("{}: the client dereferenced a node through a {} and found it already dropped (marker {:#x})", what, if via_rc { "counted Rc" } else { "Snapshot inside its critical section" }, alive.load(Relaxed));
        sim().violation(prop, "client-read-dropped-node", &format!("client-read-dropped-node/{}", what.split(':').next().unwrap_or("")), &det);
    }
}

fn on_drop(alive: &AtomicU64) {
    if alive.swap(0xDEAD, Relaxed) != ALIVE {
        DOUBLE_DROP.fetch_add(1, Relaxed);
    }
    DROPPED.fetch_add(1, Relaxed);
}

// ------------------------------------------------------------------------------------------
// Harris list (tests/harris_list.rs), K = V = u64
// ------------------------------------------------------------------------------------------

struct HNode {
    next: AtomicRc<HNode>,
    key: u64,
    value: u64,
    alive: AtomicU64,
}

unsafe impl RcObject for HNode {
    fn pop_edges(&mut self, out: &mut Vec<Rc<Self>>) {
        crate::sched::inner_yield();
        out.push(self.next.take())
    }
}
impl Drop for HNode {
    fn drop(&mut self) {
        on_drop(&self.alive)
    }
}
impl HNode {
    fn new(key: u64, value: u64) -> Self {
        CREATED.fetch_add(1, Relaxed);
        HNode { next: AtomicRc::null(), key, value, alive: AtomicU64::new(ALIVE) }
    }
}

struct ListMap {
    head: AtomicRc<HNode>,
}

struct Cursor<'g> {
    prev: Snapshot<'g, HNode>,
    curr: Snapshot<'g, HNode>,
}

fn href<'g>(s: Snapshot<'g, HNode>, what: &str) -> Option<&'g HNode> {
    let n = s.as_ref()?;
    chk(&n.alive, what, false);
    Some(n)
}

impl<'g> Cursor<'g> {
    fn new(head: &AtomicRc<HNode>, guard: &'g Guard) -> Self {
        let prev = head.load(Ordering::Relaxed, guard);
        let curr = href(prev, "harris:head").unwrap().next.load(Ordering::Acquire, guard);
        Self { prev, curr }
    }

    fn find_harris(&mut self, key: &u64, guard: &'g Guard) -> Result<Option<u64>, ()> {
        let mut prev_next = self.curr;
        let found = loop {
            let Some(curr_node) = href(self.curr, "harris:find") else { break None };
            let next = curr_node.next.load(Ordering::Acquire, guard);
            if next.tag() != 0 {
                self.curr = next.with_tag(0);
                continue;
            }
            match curr_node.key.cmp(key) {
                std::cmp::Ordering::Less => {
                    self.prev = self.curr;
                    self.curr = next;
                    prev_next = next;
                }
                std::cmp::Ordering::Equal => break Some(curr_node.value),
                std::cmp::Ordering::Greater => break None,
            }
        };
        if prev_next.ptr_eq(self.curr) {
            return Ok(found);
        }
        href(self.prev, "harris:cleanup")
            .unwrap()
            .next
            .compare_exchange(prev_next, self.curr.counted(), Ordering::Release, Ordering::Relaxed, guard)
            .map_err(|_| ())?;
        Ok(found)
    }

    fn insert(self, node: Rc<HNode>, guard: &'g Guard) -> Result<(), Rc<HNode>> {
        {
            let n = node.as_ref().unwrap();
            chk(&n.alive, "harris:new-node", true);
            n.next.swap(self.curr.counted(), Ordering::Relaxed);
        }
        match href(self.prev, "harris:insert").unwrap().next.compare_exchange(self.curr, node, Ordering::Release, Ordering::Relaxed, guard) {
            Ok(_) => Ok(()),
            Err(e) => Err(e.desired),
        }
    }

    fn remove(self, guard: &'g Guard) -> Result<(), ()> {
        let curr_node = href(self.curr, "harris:remove").unwrap();
        let next = curr_node.next.load(Ordering::Acquire, guard);
        let e = curr_node.next.compare_exchange_tag(next.with_tag(0), 1, Ordering::AcqRel, Ordering::Relaxed, guard);
        if e.is_err() {
            return Err(());
        }
        let _ = href(self.prev, "harris:unlink").unwrap().next.compare_exchange(self.curr, next.counted(), Ordering::Release, Ordering::Relaxed, guard);
        Ok(())
    }
}

impl ListMap {
    fn new() -> Self {
        ListMap { head: AtomicRc::new(HNode::new(0, 0)) }
    }
    fn get<'g>(&'g self, key: &u64, guard: &'g Guard) -> (Option<u64>, Cursor<'g>) {
        loop {
            let mut cursor = Cursor::new(&self.head, guard);
            if let Ok(r) = cursor.find_harris(key, guard) {
                return (r, cursor);
            }
        }
    }
    fn insert(&self, key: u64, value: u64, guard: &Guard) -> Option<u64> {
        let mut node = Rc::new(HNode::new(key, value));
        loop {
            let (found, cursor) = self.get(&key, guard);
            if found.is_some() {
                return found;
            }
            match cursor.insert(node, guard) {
                Err(n) => node = n,
                Ok(()) => return None,
            }
        }
    }
    fn remove(&self, key: &u64, guard: &Guard) -> Option<u64> {
        loop {
            let (found, cursor) = self.get(key, guard);
            found?;
            match cursor.remove(guard) {
                Err(()) => continue,
                Ok(_) => return found,
            }
        }
    }
}

// ------------------------------------------------------------------------------------------
// DoubleLink queue (tests/doubly_linked_queue.rs), T = u64
// ------------------------------------------------------------------------------------------

struct QNode {
    item: Option<u64>,
    prev: Weak<QNode>,
    next: AtomicRc<QNode>,
    alive: AtomicU64,
}
unsafe impl RcObject for QNode {
    fn pop_edges(&mut self, out: &mut Vec<Rc<Self>>) {
        crate::sched::inner_yield();
        out.push(self.next.take())
    }
}
impl Drop for QNode {
    fn drop(&mut self) {
        on_drop(&self.alive)
    }
}
impl QNode {
    fn new(item: Option<u64>) -> Self {
        CREATED.fetch_add(1, Relaxed);
        QNode { item, prev: Weak::null(), next: AtomicRc::null(), alive: AtomicU64::new(ALIVE) }
    }
}

struct DLQueue {
    head: AtomicRc<QNode>,
    tail: AtomicRc<QNode>,
}

fn qref<'g>(s: Snapshot<'g, QNode>, what: &str) -> Option<&'g QNode> {
    let n = s.as_ref()?;
    chk(&n.alive, what, false);
    Some(n)
}

impl DLQueue {
    fn new() -> Self {
        let sentinel = Rc::new(QNode::new(None));
        Self { head: AtomicRc::from(sentinel.clone()), tail: AtomicRc::from(sentinel) }
    }

    fn enqueue(&self, item: u64, guard: &Guard) {
        let [mut node, sub] = Rc::new_many(QNode::new(Some(item)));
        loop {
            let ltail = self.tail.load(Ordering::Acquire, guard);
            unsafe { node.deref_mut() }.prev = ltail.downgrade().counted();
            // Try to help the previous enqueue to complete.
            if let Some(lprev) = qref(ltail, "dlqueue:tail").unwrap().prev.snapshot(guard).upgrade().and_then(|s| qref(s, "dlqueue:prev")) {
                if lprev.next.load(Ordering::SeqCst, guard).is_null() {
                    lprev.next.store(ltail.counted(), Ordering::Relaxed, guard);
                }
            }
            match self.tail.compare_exchange(ltail, node, Ordering::SeqCst, Ordering::SeqCst, guard) {
                Ok(_) => {
                    qref(ltail, "dlqueue:link").unwrap().next.store(sub, Ordering::Release, guard);
                    return;
                }
                Err(e) => node = e.desired,
            }
        }
    }

    fn dequeue(&self, guard: &Guard) -> Option<u64> {
        loop {
            let lhead = self.head.load(Ordering::Acquire, guard);
            let lnext = qref(lhead, "dlqueue:head").unwrap().next.load(Ordering::Acquire, guard);
            if lnext.is_null() {
                return None;
            }
            if self.head.compare_exchange(lhead, lnext.counted(), Ordering::SeqCst, Ordering::SeqCst, guard).is_ok() {
                // the caller reads the item through the snapshot, still inside its critical section
                user_yield();
                return Some(qref(lnext, "dlqueue:output").unwrap().item.unwrap());
            }
        }
    }
}

// ------------------------------------------------------------------------------------------

#[derive(Clone, Debug)]
struct CEv {
    tid: usize,
    kind: K,
    key: u64,
    arg: u64,
    inv: u64,
    ret: u64,
    out: Option<u64>,
}
static mut HIST: Vec<CEv> = Vec::new();

pub fn gen(prop: &str, seed: u64) -> RunDesc {
    let mut rng = Rng::new(seed);
    let mut cfg = RunCfg::default();
    let nt = 2 + rng.below(3) as usize;
    swarm_cfg(&mut rng, &mut cfg, nt, true);
    let queue = rng.chance(0.4);
    let keys = 2 + rng.below(4);
    let long = rng.chance(0.2);
    let total = if long { 40 + rng.below(100) as usize } else { 6 + rng.below(10) as usize };
    let mut threads = Vec::new();
    for t in 0..nt {
        let mut ops = Vec::new();
        let hold = rng.chance(0.25);
        if hold {
            ops.push(op(K::Pin, 0, 0, 0, 0));
        }
        let mut seq = 0u32;
        for _ in 0..(total / nt).max(1) {
            if queue {
                if rng.chance(0.55) {
                    ops.push(op(K::QPush, ((t as u32) << 16) | seq, 0, 0, 0));
                    seq += 1;
                } else {
                    ops.push(op(K::QPop, 0, 0, 0, 0));
                }
            } else {
                let key = 1 + rng.below(keys) as u32;
                match rng.below(10) {
                    0..=3 => {
                        ops.push(op(K::LIns, key, ((t as u32) << 16) | seq, 0, 0));
                        seq += 1;
                    }
                    4..=6 => ops.push(op(K::LDel, key, 0, 0, 0)),
                    _ => ops.push(op(K::LTrav, key, 0, 0, 0)),
                }
            }
        }
        if hold {
            ops.push(op(K::Unpin, 0, 0, 0, 0));
        }
        let mut tp = ThreadProg::new(0, ops);
        tp.name = if queue { "dlqueue-client" } else { "harris-client" }.into();
        threads.push(tp);
    }
    if rng.chance(0.5) {
        let mut t = ThreadProg::new(0, crate::gen::ticker_ops(2 + rng.below(8) as usize));
        t.name = "ticker".into();
        threads.push(t);
    }
    if let Some(s) = cfg.stall.as_mut() {
        s.victim = rng.below(nt as u64) as u32;
    }
    RunDesc { prop: prop.to_string(), family: "client".into(), seed, cfg, threads, params: J::obj().set("structure", if queue { "dlqueue" } else { "harris-list" }).set("keys", keys).set("long", long), schedule: None, buggify_script: None }
}

struct CMon;
impl Monitor for CMon {
    fn use_after_free(&mut self, _tid: usize, site: u32, addr: usize) -> (String, String) {
        ("C02".into(), format!("the client (or the library on its behalf) accessed freed memory at {:#x} ({})", addr, sched::site_name(site)))
    }
}

enum Structure {
    Map(ListMap),
    Queue(DLQueue),
}
struct Shared(std::cell::UnsafeCell<Option<Structure>>);
unsafe impl Sync for Shared {}
static SHARED: Shared = Shared(std::cell::UnsafeCell::new(None));
fn structure() -> &'static Structure {
    unsafe { (*SHARED.0.get()).as_ref().unwrap() }
}

#[allow(static_mut_refs)]
fn body(tid: usize, prog: &ThreadProg) {
    let mut guard: Option<Guard> = None;
    for (i, o) in prog.ops.iter().enumerate() {
        sched::set_op(i as u32);
        user_yield();
        match o.k {
            K::Pin => {
                if guard.is_none() {
                    guard = Some(circ::cs());
                }
            }
            K::Unpin => guard = None,
            K::Flush => {
                if let Some(g) = &guard {
                    g.flush()
                }
            }
            K::QPush | K::QPop | K::LIns | K::LDel | K::LTrav => {
                let tmp;
                let g = match &guard {
                    Some(g) => g,
                    None => {
                        tmp = circ::cs();
                        &tmp
                    }
                };
                let inv = sim().seq;
                let mut ev = CEv { tid, kind: o.k, key: o.a as u64, arg: o.b as u64, inv, ret: 0, out: None };
                match (structure(), o.k) {
                    (Structure::Queue(q), K::QPush) => {
                        ev.arg = o.a as u64;
                        ev.key = 0;
                        q.enqueue(o.a as u64, g)
                    }
                    (Structure::Queue(q), K::QPop) => {
                        ev.key = 0;
                        ev.out = q.dequeue(g)
                    }
                    (Structure::Map(m), K::LIns) => ev.out = m.insert(o.a as u64, o.b as u64, g),
                    (Structure::Map(m), K::LDel) => ev.out = m.remove(&(o.a as u64), g),
                    (Structure::Map(m), K::LTrav) => ev.out = m.get(&(o.a as u64), g).0,
                    _ => {}
                }
                ev.ret = sim().seq;
                unsafe { HIST.push(ev) };
            }
            _ => {}
        }
    }
    sched::set_op(prog.ops.len() as u32);
    drop(guard);
}

/// sequential map spec for one key: state = Some(value) | None
fn apply_map(st: Option<u64>, e: &CEv) -> Option<Option<u64>> {
    match e.kind {
        K::LIns => match (st, e.out) {
            (None, None) => Some(Some(e.arg)),
            (Some(v), Some(o)) if v == o => Some(st),
            _ => None,
        },
        K::LDel => match (st, e.out) {
            (Some(v), Some(o)) if v == o => Some(None),
            (None, None) => Some(None),
            _ => None,
        },
        _ => (st == e.out).then_some(st),
    }
}

fn lin_map(ops: &[CEv]) -> bool {
    let n = ops.len();
    if n == 0 {
        return true;
    }
    let full: u64 = (1u64 << n) - 1;
    let mut seen: HashSet<(u64, Option<u64>)> = HashSet::new();
    let mut stack: Vec<(u64, Option<u64>)> = vec![(0, None)];
    while let Some((mask, st)) = stack.pop() {
        if mask == full {
            return true;
        }
        if !seen.insert((mask, st)) {
            continue;
        }
        let min_ret = ops.iter().enumerate().filter(|(i, _)| mask & (1 << i) == 0).map(|(_, e)| e.ret).min().unwrap();
        for (i, e) in ops.iter().enumerate() {
            if mask & (1 << i) != 0 || e.inv > min_ret {
                continue;
            }
            if let Some(ns) = apply_map(st, e) {
                stack.push((mask | (1 << i), ns));
            }
        }
    }
    false
}

fn lin_queue(ops: &[CEv]) -> bool {
    let n = ops.len();
    if n == 0 {
        return true;
    }
    let full: u64 = (1u64 << n) - 1;
    let mut seen: HashSet<(u64, Vec<u64>)> = HashSet::new();
    let mut stack: Vec<(u64, VecDeque<u64>)> = vec![(0, VecDeque::new())];
    while let Some((mask, st)) = stack.pop() {
        if mask == full {
            return true;
        }
        if !seen.insert((mask, st.iter().copied().collect())) {
            continue;
        }
        let min_ret = ops.iter().enumerate().filter(|(i, _)| mask & (1 << i) == 0).map(|(_, e)| e.ret).min().unwrap();
        for (i, e) in ops.iter().enumerate() {
            if mask & (1 << i) != 0 || e.inv > min_ret {
                continue;
            }
            let ns = match e.kind {
                K::QPush => {
                    let mut q = st.clone();
                    q.push_back(e.arg);
                    Some(q)
                }
                _ => match (st.front(), e.out) {
                    (None, None) => Some(st.clone()),
                    (Some(&f), Some(x)) if f == x => {
                        let mut q = st.clone();
                        q.pop_front();
                        Some(q)
                    }
                    _ => None,
                },
            };
            if let Some(ns) = ns {
                stack.push((mask | (1 << i), ns));
            }
        }
    }
    false
}

fn fmt(e: &CEv) -> String {
    let o = e.out.map(|x| format!("{:#x}", x)).unwrap_or("None".into());
    match e.kind {
        K::QPush => format!("t{} [{}..{}] enqueue({:#x})", e.tid, e.inv, e.ret, e.arg),
        K::QPop => format!("t{} [{}..{}] dequeue -> {}", e.tid, e.inv, e.ret, o),
        K::LIns => format!("t{} [{}..{}] insert({},{:#x}) -> {}", e.tid, e.inv, e.ret, e.key, e.arg, o),
        K::LDel => format!("t{} [{}..{}] remove({}) -> {}", e.tid, e.inv, e.ret, e.key, o),
        _ => format!("t{} [{}..{}] get({}) -> {}", e.tid, e.inv, e.ret, e.key, o),
    }
}

#[allow(static_mut_refs)]
pub fn run(desc: &RunDesc) -> ! {
    crate::runner::init_library(&desc.cfg);
    let queue = desc.params.gets("structure") == "dlqueue";
    unsafe { *SHARED.0.get() = Some(if queue { Structure::Queue(DLQueue::new()) } else { Structure::Map(ListMap::new()) }) };
    let progs: Arc<Vec<ThreadProg>> = Arc::new(desc.threads.clone());
    let mut specs = Vec::new();
    for (i, t) in desc.threads.iter().enumerate() {
        let progs = progs.clone();
        specs.push(ThreadSpec { phase: t.phase, stack: 2 << 20, name: "client", body: Arc::new(move |tid| body(tid, &progs[i])) });
    }
    let n = desc.threads.len();
    specs.push(ThreadSpec {
        phase: 9,
        stack: 2 << 20,
        name: "teardown",
        body: Arc::new(move |_tid| {
            // drop the structure, then collect until every node is gone
            unsafe { *SHARED.0.get() = None };
            let mut rounds = 0;
            while DROPPED.load(Relaxed) < CREATED.load(Relaxed) && rounds < 400 {
                let g = circ::cs();
                g.flush();
                drop(g);
                rounds += 1;
            }
            for _ in 0..6 {
                let g = circ::cs();
                g.flush();
                drop(g);
            }
            crate::runner::set_extra("teardown_rounds", rounds);
        }),
    });
    let sc = crate::runner::sim_config(desc, n + 1);
    sched::run(sc, Box::new(CMon), specs, Some(crate::runner::clock));
    let hist: Vec<CEv> = unsafe { HIST.clone() };
    let (c, d) = (CREATED.load(Relaxed), DROPPED.load(Relaxed));
    if d != c {
        soft("C04", "client-nodes-not-reclaimed", format!("{} nodes were created by the {} but {} destructors ran after the structure was dropped and 400 collection rounds", c, desc.params.gets("structure"), d));
    }
    if DOUBLE_DROP.load(Relaxed) > 0 {
        soft("C04", "client-node-dropped-twice", format!("{} node destructor(s) ran on an already dropped node", DOUBLE_DROP.load(Relaxed)));
    }
    let mut lin_checked = 0u64;
    let mut concurrent_pairs = 0u64;
    let mut by_key: BTreeMap<u64, Vec<CEv>> = BTreeMap::new();
    for e in &hist {
        by_key.entry(e.key).or_default().push(e.clone());
    }
    for (_, mut ops) in by_key {
        ops.sort_by_key(|e| (e.inv, e.ret, e.tid));
        if ops.len() > (if queue { 24 } else { 40 }) {
            continue;
        }
        for i in 0..ops.len() {
            for j in i + 1..ops.len() {
                if ops[i].tid != ops[j].tid && ops[j].inv <= ops[i].ret && ops[i].inv <= ops[j].ret {
                    concurrent_pairs += 1;
                }
            }
        }
        lin_checked += 1;
        let ok = if queue { lin_queue(&ops) } else { lin_map(&ops) };
        if !ok {
            soft("C08", if queue { "client-dlqueue-not-linearizable" } else { "client-harris-not-linearizable" }, format!("history of the {} is not linearizable: {}", desc.params.gets("structure"), ops.iter().map(fmt).collect::<Vec<_>>().join(" | ")));
        }
    }
    if queue {
        // cheap invariants for long histories
        let mut popped: BTreeMap<u64, u32> = BTreeMap::new();
        for e in &hist {
            if let (K::QPop, Some(x)) = (e.kind, e.out) {
                *popped.entry(x).or_insert(0) += 1;
            }
        }
        if popped.values().any(|&c| c > 1) {
            soft("C08", "client-dlqueue-dequeued-twice", "an element was dequeued twice".into());
        }
        let pushed: HashSet<u64> = hist.iter().filter(|e| e.kind == K::QPush).map(|e| e.arg).collect();
        if popped.keys().any(|x| !pushed.contains(x)) {
            soft("C02", "client-dlqueue-garbage-item", "a dequeued item was never enqueued (read from a dropped node?)".into());
        }
    }
    let df = crate::alloc::DOUBLE_FREE.load(SeqCst);
    if df != 0 {
        soft("C04", "double-free", format!("block at {:#x} was freed twice", df));
    }
    if desc.cfg.quarantine {
        if let Some(a) = crate::alloc::verify_poison() {
            soft(&desc.prop, "write-after-free", format!("freed memory at {:#x} was written after it was freed", a));
        }
    }
    crate::runner::set_extra("fam", J::obj().set("client_ops", hist.len()).set("client_nodes", c).set("lin_checked", lin_checked).set("concurrent_pairs", concurrent_pairs));
    let softs = unsafe { SOFT.clone() };
    crate::runner::set_extra("soft", J::Arr(softs.iter().map(|(p, s, d)| J::obj().set("prop", p.as_str()).set("props", J::Arr(vec![J::Str(p.clone())])).set("signature", format!("{}/{}", p, s)).set("detail", d.as_str()).set("seq", 0)).collect()));
    let outcome = match softs.first() {
        Some((p, s, d)) => Outcome::Violation(Violation { prop: p.clone(), kind: "soft".into(), signature: format!("{}/{}", p, s), detail: d.clone(), seq: sim().seq }),
        None => Outcome::Ok,
    };
    sim().finish(outcome)
}
