//! Minimisation of a failing run (delta debugging over threads, ops and schedule segments) and
//! replay files.

use std::time::Instant;

use crate::json::J;
use crate::ops::*;
use crate::runner::{self, Res, RunResult};

fn same_failure(r: &RunResult, sig: &str) -> bool {
    if r.signature() == sig {
        return true;
    }
    // a soft finding that is not the run's first finding
    r.json.get("extra").map(|e| e.geta("soft").iter().any(|s| s.gets("signature") == sig)).unwrap_or(false)
}

struct Min {
    sig: String,
    best: RunDesc,
    best_res: J,
    tries: u32,
    t0: Instant,
    budget_s: f64,
    max_tries: u32,
}

impl Min {
    fn out_of_budget(&self) -> bool {
        self.tries >= self.max_tries || self.t0.elapsed().as_secs_f64() > self.budget_s
    }
    /// run candidate; accept if it fails the same way
    fn attempt(&mut self, cand: RunDesc) -> bool {
        if self.out_of_budget() {
            return false;
        }
        self.tries += 1;
        let r = runner::fork_run(&cand);
        if matches!(r.res, Res::HarnessError | Res::Timeout) {
            return false;
        }
        if same_failure(&r, &self.sig) {
            let mut c = cand;
            // store the decisions actually taken so that the file replays exactly
            c.schedule = Some(r.sched.clone());
            c.buggify_script = Some(r.buggify.clone());
            self.best = c;
            self.best_res = r.json.clone();
            true
        } else {
            false
        }
    }
}

fn total_ops(d: &RunDesc) -> usize {
    d.threads.iter().map(|t| t.ops.len() + t.tls_ops.len()).sum()
}

fn remove_thread(d: &RunDesc, t: usize) -> RunDesc {
    let mut c = d.clone();
    c.threads.remove(t);
    let fix = |x: u32| if x == crate::sched::MAIN32 { x } else if x as usize > t { x - 1 } else { x };
    if let Some(s) = c.schedule.as_mut() {
        // switches made by the removed thread disappear; switches *to* it become "keep running"
        s.retain(|e| e.0 as usize != t || e.0 == crate::sched::MAIN32);
        s.retain(|e| e.3 as usize != t || e.3 == crate::sched::MAIN32);
        for e in s.iter_mut() {
            e.0 = fix(e.0);
            e.3 = fix(e.3);
        }
    }
    if let Some(st) = c.cfg.stall.as_mut() {
        if st.victim as usize == t {
            c.cfg.stall = None;
        } else if st.victim as usize > t {
            st.victim -= 1;
        }
    }
    c
}

/// remove ops [lo, hi) in the flattened op order (per thread: ops, then tls_ops); the schedule's
/// positions are renumbered so that every switch stays at "the same place" in what remains
fn remove_ops(d: &RunDesc, lo: usize, hi: usize) -> RunDesc {
    let mut c = d.clone();
    let mut idx = 0;
    for (ti, t) in c.threads.iter_mut().enumerate() {
        // position numbering: ops 0..n-1, n = end-of-program drops, n+1+i = tls op i
        let n = t.ops.len();
        let mut removed_pos: Vec<u32> = Vec::new();
        let mut keep = Vec::new();
        for (i, o) in t.ops.iter().enumerate() {
            if idx < lo || idx >= hi {
                keep.push(*o);
            } else {
                removed_pos.push(i as u32);
            }
            idx += 1;
        }
        t.ops = keep;
        let mut keep = Vec::new();
        for (i, o) in t.tls_ops.iter().enumerate() {
            if idx < lo || idx >= hi {
                keep.push(*o);
            } else {
                removed_pos.push((n + 1 + i) as u32);
            }
            idx += 1;
        }
        t.tls_ops = keep;
        if removed_pos.is_empty() {
            continue;
        }
        if let Some(s) = c.schedule.as_mut() {
            for e in s.iter_mut() {
                if e.0 as usize != ti || e.1 == crate::sched::OP_EXIT {
                    continue;
                }
                let before = removed_pos.iter().filter(|&&r| r < e.1).count() as u32;
                if removed_pos.contains(&e.1) {
                    // the op is gone: the switch happens at the start of what follows it
                    e.2 = 0;
                }
                e.1 -= before;
            }
        }
    }
    c
}

fn remove_segments(d: &RunDesc, lo: usize, hi: usize) -> RunDesc {
    let mut c = d.clone();
    if let Some(s) = c.schedule.as_mut() {
        let mut i = 0;
        s.retain(|e| {
            let k = i;
            i += 1;
            // forced decisions (exit/block/start) stay; voluntary switches in [lo, hi) go
            !(k >= lo && k < hi) || e.0 == crate::sched::MAIN32
        });
    }
    c
}

pub fn minimize(desc: RunDesc, sig: &str, first_res: J, budget_s: f64) -> (RunDesc, J, u32, bool) {
    let mut m = Min { sig: sig.to_string(), best: desc.clone(), best_res: first_res, tries: 0, t0: Instant::now(), budget_s, max_tries: 20000 };
    // 0. the recorded run must reproduce under its own recorded schedule
    if !m.attempt(desc.clone()) {
        return (desc, m.best_res, m.tries, false);
    }
    let mut progress = true;
    while progress && !m.out_of_budget() {
        progress = false;
        // 1. whole threads
        let mut t = 0;
        while t < m.best.threads.len() {
            if m.best.threads.len() > 1 && m.attempt(remove_thread(&m.best, t)) {
                progress = true;
            } else {
                t += 1;
            }
        }
        // 2. ops (ddmin: chunks of decreasing size)
        let mut chunk = (total_ops(&m.best) / 2).max(1);
        loop {
            let mut lo = 0;
            while lo < total_ops(&m.best) {
                let hi = (lo + chunk).min(total_ops(&m.best));
                if m.attempt(remove_ops(&m.best, lo, hi)) {
                    progress = true;
                } else {
                    lo = hi;
                }
                if m.out_of_budget() {
                    break;
                }
            }
            if chunk == 1 || m.out_of_budget() {
                break;
            }
            chunk = (chunk / 2).max(1);
        }
        // 3. schedule segments (fewer context switches)
        let nseg = m.best.schedule.as_ref().map(|s| s.len()).unwrap_or(0);
        let mut chunk = (nseg / 2).max(1);
        loop {
            let mut lo = 0;
            loop {
                let n = m.best.schedule.as_ref().map(|s| s.len()).unwrap_or(0);
                if lo >= n {
                    break;
                }
                let hi = (lo + chunk).min(n);
                let before = n;
                if m.attempt(remove_segments(&m.best, lo, hi)) && m.best.schedule.as_ref().map(|s| s.len()).unwrap_or(0) < before {
                    progress = true;
                } else {
                    lo = hi;
                }
                if m.out_of_budget() {
                    break;
                }
            }
            if chunk == 1 || m.out_of_budget() {
                break;
            }
            chunk = (chunk / 2).max(1);
        }
        // 4. simpler configuration
        let mut c = m.best.clone();
        c.cfg.stall = None;
        c.cfg.buggify_p = 0.0;
        if c.cfg != m.best.cfg && m.attempt(c) {
            progress = true;
        }
        for (f, v) in [(0, 0u32), (1, 0u32), (2, 0u32)] {
            let mut c = m.best.clone();
            match f {
                0 => c.cfg.dtor_api = v,
                1 => c.cfg.pop_policy = v,
                _ => c.cfg.ord_mode = v,
            }
            if c.cfg != m.best.cfg && m.attempt(c) {
                progress = true;
            }
        }
    }
    (m.best.clone(), m.best_res.clone(), m.tries, true)
}

fn replay_json(desc: &RunDesc, res: &J, sig: &str, minimised: bool, tries: u32, original: Option<&RunDesc>) -> J {
    let mut j = desc.to_json();
    j.put(
        "expected",
        J::obj().set("signature", sig).set("vseq", res.getu("vseq")).set("hash", res.getu("hash")).set("steps", res.getu("steps")).set("detail", res.gets("detail")),
    );
    j.put("violation", J::obj().set("signature", sig).set("kind", res.gets("kind")).set("detail", res.gets("detail")).set("seq", res.getu("vseq")));
    j.put("trace_tail", res.get("trace_tail").cloned().unwrap_or(J::Null));
    j.put("faults_fired", res.get("faults").cloned().unwrap_or(J::Null));
    j.put("minimised", minimised);
    j.put("minimisation_runs", tries);
    j.put("build", J::obj().set("profile", if cfg!(debug_assertions) { "release+debug-assertions" } else { "release" }).set("repo_tree", repo_tree_hash()));
    if let Some(o) = original {
        j.put("unminimised_ops", o.threads.iter().map(|t| t.ops.len() + t.tls_ops.len()).sum::<usize>());
        j.put("unminimised_threads", o.threads.len());
        j.put("unminimised_schedule_segments", o.schedule.as_ref().map(|s| s.len()).unwrap_or(0));
    }
    j
}

pub fn repo_tree_hash() -> String {
    std::process::Command::new("sh")
        .arg("-c")
        .arg("cd /repo && (git rev-parse HEAD; git diff HEAD | sha1sum) 2>/dev/null | tr '\\n' ' '")
        .output()
        .ok()
        .map(|o| String::from_utf8_lossy(&o.stdout).trim().to_string())
        .unwrap_or_default()
}

fn sanitize(s: &str) -> String {
    s.chars().map(|c| if c.is_ascii_alphanumeric() || c == '-' || c == '_' { c } else { '_' }).collect()
}

/// Minimise, write the replay file (and the unminimised original next to it), return its path.
pub fn report(prop: &str, sig: &str, first: &J) -> String {
    let desc = first.get("desc").and_then(RunDesc::from_json);
    let base = format!("{}/replays/{}-{}-{}", crate::check::home(), prop, sanitize(sig), first.getu("seed") & 0xFFFF_FFFF);
    let path = format!("{}.json", base);
    let Some(desc) = desc else {
        let _ = std::fs::write(&path, first.pretty());
        return path;
    };
    let res = first.get("result").cloned().unwrap_or(J::Null);
    let orig = replay_json(&desc, &res, sig, false, 0, None);
    let _ = std::fs::write(format!("{}.orig.json", base), orig.pretty());
    let budget = crate::check::env_u64("VERIF_MIN_BUDGET_S", 45) as f64;
    let (best, best_res, tries, reproduced) = minimize(desc.clone(), sig, res.clone(), budget);
    let mut j = replay_json(&best, &best_res, sig, reproduced, tries, Some(&desc));
    if !reproduced {
        j.put("note", "the recorded run did not reproduce under its recorded schedule; file holds the original run description");
    } else {
        // replay the minimised file twice in fresh processes before writing it
        let a = runner::fork_run(&best);
        let b = runner::fork_run(&best);
        let exact = same_failure(&a, sig) && same_failure(&b, sig) && a.json.getu("hash") == b.json.getu("hash") && a.json.getu("hash") == best_res.getu("hash");
        j.put("replayed_twice_identically", exact);
    }
    let _ = std::fs::write(&path, j.pretty());
    path
}

/// A finding that names only *other* properties than the one being checked: keep the run (not
/// minimised) so that it can be chased with `circ-sim replay`; it does not fail this check.
pub fn keep_foreign(prop: &str, sig: &str, first: &J) -> String {
    let Some(desc) = first.get("desc").and_then(RunDesc::from_json) else { return String::new() };
    let path = format!("{}/replays/other-property-seen-by-{}-{}-{}.json", crate::check::home(), prop, sanitize(sig), first.getu("seed") & 0xFFFF_FFFF);
    let res = first.get("result").cloned().unwrap_or(J::Null);
    let _ = std::fs::write(&path, replay_json(&desc, &res, sig, false, 0, None).pretty());
    path
}

/// `circ-sim replay <file>`: exit 1 + VIOLATION line if the recorded violation reproduces
/// exactly, exit 0 if the run is clean, exit 2 if it diverges.
pub fn replay(path: &str) -> i32 {
    let txt = match std::fs::read_to_string(path) {
        Ok(t) => t,
        Err(e) => {
            eprintln!("cannot read {}: {}", path, e);
            return 2;
        }
    };
    let j = match J::parse(&txt) {
        Ok(j) => j,
        Err(e) => {
            eprintln!("bad replay file: {}", e);
            return 2;
        }
    };
    let Some(desc) = RunDesc::from_json(&j) else {
        eprintln!("bad replay file: no run description");
        return 2;
    };
    let exp = j.get("expected").cloned().unwrap_or(J::Null);
    let r = runner::fork_run(&desc);
    println!("outcome: {:?}", r.res);
    println!("signature: {}", r.signature());
    println!("detail: {}", r.json.gets("detail"));
    println!("steps: {} hash: {} (expected steps {} hash {})", r.json.getu("steps"), r.json.getu("hash"), exp.getu("steps"), exp.getu("hash"));
    if let Some(t) = r.json.get("trace_tail") {
        let tail = t.as_arr().map(|a| a.iter().rev().take(25).rev().filter_map(|x| x.as_str()).collect::<Vec<_>>().join(" ")).unwrap_or_default();
        println!("trace tail: {}", tail);
    }
    let sig = exp.gets("signature");
    if same_failure(&r, sig) {
        println!("VIOLATION property={} replay={}", desc.prop, path);
        if r.json.getu("hash") != exp.getu("hash") {
            println!("note: same violation, different event hash (different build profile or tree than the one that produced the file)");
        }
        return 1;
    }
    if matches!(r.res, Res::Ok) {
        println!("replay is clean on this tree: the recorded violation ({}) does not occur", sig);
        return 0;
    }
    println!("replay diverged: expected {}, got {}", sig, r.signature());
    2
}
