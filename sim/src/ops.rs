//! Operation alphabet of the interpreter, run descriptions and their JSON form.

use crate::json::J;

macro_rules! kinds {
    ($($name:ident),* $(,)?) => {
        #[derive(Clone, Copy, Debug, PartialEq, Eq, PartialOrd, Ord)]
        #[repr(u8)]
        pub enum K { $($name),* }
        impl K {
            pub const ALL: &'static [K] = &[$(K::$name),*];
            pub fn name(self) -> &'static str { match self { $(K::$name => stringify!($name)),* } }
            pub fn from_name(s: &str) -> Option<K> { match s { $(stringify!($name) => Some(K::$name),)* _ => None } }
        }
    };
}

kinds! {
    Nop,
    // guards
    Pin, Unpin, Reactivate, ReactAfter, Flush, PanicCs,
    // Rc
    New, NewMany, NewIter, IterOpen, IterNext, IterClose, Clone, DropRc, Finalize, Downgrade, WeakMany, SnapOf, RcTag, DerefRc,
    // Snapshot
    Counted, SnapDown, SnapTag, DerefSnap,
    // AtomicRc cells
    Load, Store, Swap, Cas, CasTag,
    // Weak / WeakSnapshot
    CloneW, DropW, Upgrade, WSnapOf, WTag, WsCounted, WsUpgrade, WsTag,
    // AtomicWeak cells
    LoadW, StoreW, SwapW, CasW, CasTagW,
    // collector level (through the shim)
    Defer, TryAdvance, Collect, CheckDeferred,
    // control
    Signal, Await, TlsInit,
    // QUEUE-LIN family (a = value / predicate id)
    QPush, QPop, QPopIf,
    // LIST-TRAV family (a = element index of this thread / stop_on_stall)
    LIns, LDel, LTrav,
}

/// One operation. Argument meaning per kind (unused = 0):
///
/// | kind | a | b | c | d |
/// |---|---|---|---|---|
/// | Pin/Unpin/Reactivate/Flush | guard | | | |
/// | PanicCs | body (0 flush, 1 defer+flush, 2 drop an Rc + flush, 3 a bulk iterator with shares left is alive) | shape / count index | | |
/// | ReactAfter | guard | body (0 noop, 1 panic, 2 nested pin+unpin, 3 pin+flush+unpin) | | |
/// | New | dst rc | extra-from rc (99 none) | rank class (0 = random rank) | 0 plain-Rc field; 1 AtomicRc::from(&Rc), 2 AtomicRc::from(Rc), 3 AtomicWeak::from(&Rc), 4 AtomicWeak::from(&Weak) |
/// | NewMany | n | | | |
/// | NewIter | count index | take | bit 0 abort?; bits 1-2: 1 nth(1), 2 nth(count), 3 step_by(2) over the rest | guard |
/// | IterOpen | count index | take | iterator slot (0-1) | | (the iterator stays open across later ops: its shares are owners that no Rc stands for)
/// | IterNext | iterator slot | | | |
/// | IterClose | iterator slot | abort? | guard | |
/// | Clone | src rc | dst rc | | |
/// | DropRc | rc | | | |
/// | Finalize | rc | guard | | |
/// | Downgrade | rc | dst weak | guard | 1 = Weak::from(rc.snapshot(guard)) |
/// | WeakMany | rc | index into [0,1,2,3,8,9,16] | | |
/// | SnapOf | rc | guard | dst snap | |
/// | RcTag/SnapTag/WTag/WsTag | slot | tag index | | |
/// | DerefRc/DerefSnap | slot | | | |
/// | Counted | snap | dst rc | | 1 = Rc::from(snapshot) |
/// | SnapDown | snap | dst wsnap | | 1 = WeakSnapshot::from(snapshot) |
/// | Load | cell | guard | dst snap | |
/// | Store | cell | src rc (empty = null) | guard | |
/// | Swap | cell | rc (in/out) | | |
/// | Cas | cell | expected snap | desired rc (in/out) | weak? |
/// | CasTag | cell | expected snap | tag index | |
/// | CloneW | src weak | dst weak | | |
/// | DropW | weak | | | |
/// | Upgrade | weak | dst rc | | |
/// | WSnapOf | weak | guard | dst wsnap | |
/// | WsCounted | wsnap | dst weak | | 1 = Weak::from(weak snapshot) |
/// | WsUpgrade | wsnap | dst snap | | |
/// | LoadW | wcell | guard | dst wsnap | |
/// | StoreW | wcell | src weak | guard | |
/// | SwapW | wcell | weak (in/out) | | |
/// | CasW | wcell | expected wsnap | desired weak (in/out) | weak? |
/// | CasTagW | wcell | expected wsnap | tag index | |
/// | Defer | guard | closure shape | chain (the function defers a child when it runs) | 1 = the function panics when it runs (directed templates only) |
/// | Reactivate | guard | 1 = a panic out of the collection it runs is caught | | |
/// | TryAdvance/Collect | guard | | | |
/// | CheckDeferred | at least this many deferred functions must have run by now | | | |
/// | Signal/Await | k | | | |
///
/// cell  = kind*100 + slot*10 + field: kind 0 = ROOT[slot], 1 = rcs[slot].next[field], 2 = snaps[slot].next[field]
/// wcell = kind*100 + slot*10: kind 0 = WROOT[slot], 1 = rcs[slot].wlink, 2 = snaps[slot].wlink
#[derive(Clone, Copy, Debug, PartialEq, Eq)]
pub struct Op {
    pub k: K,
    pub a: u32,
    pub b: u32,
    pub c: u32,
    pub d: u32,
}

pub fn op(k: K, a: u32, b: u32, c: u32, d: u32) -> Op {
    Op { k, a, b, c, d }
}

impl Op {
    pub fn to_json(&self) -> J {
        let mut v = vec![J::Str(self.k.name().to_string()), J::Int(self.a as i64)];
        // trailing zeros are dropped for readability
        let rest = [self.b, self.c, self.d];
        let mut n = 3;
        while n > 0 && rest[n - 1] == 0 {
            n -= 1;
        }
        for x in &rest[..n] {
            v.push(J::Int(*x as i64));
        }
        J::Arr(v)
    }
    pub fn from_json(j: &J) -> Option<Op> {
        let a = j.as_arr()?;
        let k = K::from_name(a.first()?.as_str()?)?;
        let g = |i: usize| a.get(i).and_then(|x| x.as_i64()).unwrap_or(0) as u32;
        Some(Op { k, a: g(1), b: g(2), c: g(3), d: g(4) })
    }
    pub fn hash(&self) -> u64 {
        crate::rng::mix(&[self.k as u64, self.a as u64, self.b as u64, self.c as u64, self.d as u64])
    }
}

pub const NRC: usize = 6;
pub const NWEAK: usize = 4;
pub const NGUARD: usize = 3;
pub const NSNAP: usize = 6;
pub const NWSNAP: usize = 4;
pub const NONE_SLOT: u32 = 99;

pub const TAGS: [usize; 10] = [0, 1, 2, 3, 7, 8, 31, 32, usize::MAX, 0x55];

#[derive(Clone, Debug, PartialEq)]
pub struct ThreadProg {
    pub phase: u32,
    pub stack_kib: u32,
    /// 0 = no TLS payload, 1 = initialised before the first `cs()` (destroyed after the
    /// participant handle), 2 = initialised after it (destroyed before the handle)
    pub tls_mode: u32,
    /// 0 = drop everything at the end of the program, 1 = move what is left into the TLS payload
    pub exit_mode: u32,
    pub ops: Vec<Op>,
    pub tls_ops: Vec<Op>,
    pub name: String,
}

impl ThreadProg {
    pub fn new(phase: u32, ops: Vec<Op>) -> Self {
        ThreadProg { phase, stack_kib: 2048, tls_mode: 0, exit_mode: 0, ops, tls_ops: Vec::new(), name: String::new() }
    }
    pub fn to_json(&self) -> J {
        J::obj()
            .set("phase", self.phase)
            .set("stack_kib", self.stack_kib)
            .set("tls_mode", self.tls_mode)
            .set("exit_mode", self.exit_mode)
            .set("name", self.name.as_str())
            .set("ops", J::Arr(self.ops.iter().map(|o| o.to_json()).collect()))
            .set("tls_ops", J::Arr(self.tls_ops.iter().map(|o| o.to_json()).collect()))
    }
    pub fn from_json(j: &J) -> Option<ThreadProg> {
        Some(ThreadProg {
            phase: j.getu("phase") as u32,
            stack_kib: j.getu("stack_kib") as u32,
            tls_mode: j.getu("tls_mode") as u32,
            exit_mode: j.getu("exit_mode") as u32,
            name: j.gets("name").to_string(),
            ops: j.geta("ops").iter().map(Op::from_json).collect::<Option<Vec<_>>>()?,
            tls_ops: j.geta("tls_ops").iter().map(Op::from_json).collect::<Option<Vec<_>>>()?,
        })
    }
}

#[derive(Clone, Debug, PartialEq)]
pub struct StallCfg {
    pub victim: u32,
    pub site: u32,
    pub nth: u32,
    pub k: u64,
    /// release when this signal is raised (0 = none); `k` epochs remain the fallback
    pub release_signal: u32,
}

#[derive(Clone, Debug, PartialEq)]
pub struct RunCfg {
    pub align: u32,
    pub max_objects: u32,
    pub manual_interval: u32,
    pub start_epoch: u64,
    pub roots: u32,
    pub wroots: u32,
    pub pop_policy: u32,
    pub dtor_api: u32,
    /// 0 random, 1 pct, 2 hot-site
    pub strategy: u32,
    pub p_switch: f64,
    pub pct_depth: u32,
    pub hot_mask: u64,
    pub stall: Option<StallCfg>,
    pub buggify_p: f64,
    pub step_cap: u64,
    pub janitor_rounds: u32,
    /// record invoke/return history of cell operations and check linearizability
    pub lin: u32,
    /// quarantine allocator (UAF oracle, poison) on/off
    pub quarantine: bool,
    /// raise signal 7 when a cascade reclaims a node at this depth (0 = off): lets a template
    /// place an action in the middle of a long cascade
    pub signal_depth: u32,
    /// memory orderings passed to the cell operations (see interp::ORD_MODE)
    pub ord_mode: u32,
    /// raise signal 9 when pop_edges of an object of this rank class starts (0 = off): lets a
    /// template act while the library is in the middle of destructing that object
    pub signal_pop_class: u32,
    /// stack of the janitor thread that collects at the end (0 = 2 MiB)
    pub janitor_stack_kib: u32,
}

impl Default for RunCfg {
    fn default() -> Self {
        RunCfg {
            align: 8,
            max_objects: 64,
            manual_interval: 64,
            start_epoch: 0,
            roots: 2,
            wroots: 1,
            pop_policy: 0,
            dtor_api: 0,
            strategy: 0,
            p_switch: 0.1,
            pct_depth: 3,
            hot_mask: 0,
            stall: None,
            buggify_p: 0.0,
            step_cap: 400_000,
            janitor_rounds: 0,
            lin: 0,
            quarantine: true,
            signal_depth: 0,
            ord_mode: 0,
            signal_pop_class: 0,
            janitor_stack_kib: 0,
        }
    }
}

impl RunCfg {
    pub fn to_json(&self) -> J {
        let mut j = J::obj()
            .set("align", self.align)
            .set("max_objects", self.max_objects)
            .set("manual_interval", self.manual_interval)
            .set("start_epoch", self.start_epoch)
            .set("roots", self.roots)
            .set("wroots", self.wroots)
            .set("pop_policy", self.pop_policy)
            .set("dtor_api", self.dtor_api)
            .set("strategy", self.strategy)
            .set("p_switch", self.p_switch)
            .set("pct_depth", self.pct_depth)
            .set("hot_mask", self.hot_mask)
            .set("buggify_p", self.buggify_p)
            .set("step_cap", self.step_cap)
            .set("janitor_rounds", self.janitor_rounds)
            .set("lin", self.lin)
            .set("quarantine", self.quarantine);
        if self.signal_depth != 0 {
            j.put("signal_depth", self.signal_depth);
        }
        if self.ord_mode != 0 {
            j.put("ord_mode", self.ord_mode);
        }
        if self.signal_pop_class != 0 {
            j.put("signal_pop_class", self.signal_pop_class);
        }
        if self.janitor_stack_kib != 0 {
            j.put("janitor_stack_kib", self.janitor_stack_kib);
        }
        if let Some(s) = &self.stall {
            j.put("stall", J::obj().set("victim", s.victim).set("site", s.site).set("nth", s.nth).set("k", s.k).set("release_signal", s.release_signal));
        }
        j
    }
    pub fn from_json(j: &J) -> RunCfg {
        RunCfg {
            align: j.getu("align") as u32,
            max_objects: j.getu("max_objects") as u32,
            manual_interval: j.getu("manual_interval") as u32,
            start_epoch: j.getu("start_epoch"),
            roots: j.getu("roots") as u32,
            wroots: j.getu("wroots") as u32,
            pop_policy: j.getu("pop_policy") as u32,
            dtor_api: j.getu("dtor_api") as u32,
            strategy: j.getu("strategy") as u32,
            p_switch: j.get("p_switch").and_then(|x| x.as_f64()).unwrap_or(0.1),
            pct_depth: j.getu("pct_depth") as u32,
            hot_mask: j.getu("hot_mask"),
            stall: j.get("stall").map(|s| StallCfg { victim: s.getu("victim") as u32, site: s.getu("site") as u32, nth: s.getu("nth") as u32, k: s.getu("k"), release_signal: s.getu("release_signal") as u32 }),
            buggify_p: j.get("buggify_p").and_then(|x| x.as_f64()).unwrap_or(0.0),
            step_cap: j.getu("step_cap"),
            janitor_rounds: j.getu("janitor_rounds") as u32,
            lin: j.getu("lin") as u32,
            quarantine: j.get("quarantine").and_then(|x| x.as_bool()).unwrap_or(true),
            signal_depth: j.getu("signal_depth") as u32,
            ord_mode: j.getu("ord_mode") as u32,
            signal_pop_class: j.getu("signal_pop_class") as u32,
            janitor_stack_kib: j.getu("janitor_stack_kib") as u32,
        }
    }
}

/// Everything that determines one run.
#[derive(Clone, Debug, PartialEq)]
pub struct RunDesc {
    pub prop: String,
    pub family: String,
    pub seed: u64,
    pub cfg: RunCfg,
    pub threads: Vec<ThreadProg>,
    /// family-specific parameters (CHAIN, AGE-SWEEP, QUEUE, LIST ...)
    pub params: J,
    /// context switches: (from thread, op index, step within op, to thread); thread u32::MAX-1 = start
    pub schedule: Option<Vec<(u32, u32, u32, u32)>>,
    pub buggify_script: Option<Vec<u64>>,
}

impl RunDesc {
    pub fn to_json(&self) -> J {
        let mut j = J::obj()
            .set("property", self.prop.as_str())
            .set("family", self.family.as_str())
            .set("seed", self.seed)
            .set("config", self.cfg.to_json())
            .set("params", self.params.clone())
            .set("threads", J::Arr(self.threads.iter().map(|t| t.to_json()).collect()));
        if let Some(s) = &self.schedule {
            j.put("schedule", J::Arr(s.iter().map(|&(f, o, st, t)| J::Arr(vec![J::Int(f as i64), J::Int(o as i64), J::Int(st as i64), J::Int(t as i64)])).collect()));
        }
        if let Some(b) = &self.buggify_script {
            j.put("buggify_script", J::Arr(b.iter().map(|&x| J::Int(x as i64)).collect()));
        }
        j
    }
    pub fn from_json(j: &J) -> Option<RunDesc> {
        Some(RunDesc {
            prop: j.gets("property").to_string(),
            family: j.gets("family").to_string(),
            seed: j.getu("seed"),
            cfg: RunCfg::from_json(j.get("config")?),
            params: j.get("params").cloned().unwrap_or(J::Null),
            threads: j.geta("threads").iter().map(ThreadProg::from_json).collect::<Option<Vec<_>>>()?,
            schedule: j.get("schedule").and_then(|s| s.as_arr()).map(|a| {
                a.iter()
                    .filter_map(|p| {
                        let p = p.as_arr()?;
                        Some((p.first()?.as_u64()? as u32, p.get(1)?.as_u64()? as u32, p.get(2)?.as_u64()? as u32, p.get(3)?.as_u64()? as u32))
                    })
                    .collect()
            }),
            buggify_script: j.get("buggify_script").and_then(|s| s.as_arr()).map(|a| a.iter().filter_map(|x| x.as_u64()).collect()),
        })
    }
    pub fn program_hash(&self) -> u64 {
        let mut h = crate::rng::hash_str(&self.family);
        h = crate::rng::mix(&[h, self.cfg.align as u64, self.cfg.max_objects as u64, self.cfg.manual_interval as u64, self.cfg.start_epoch, self.cfg.pop_policy as u64]);
        for t in &self.threads {
            h = crate::rng::mix(&[h, t.phase as u64, t.tls_mode as u64, t.exit_mode as u64]);
            for o in t.ops.iter().chain(t.tls_ops.iter()) {
                h = crate::rng::mix(&[h, o.hash()]);
            }
        }
        crate::rng::mix(&[h, crate::rng::hash_str(&self.params.to_string())])
    }
}
