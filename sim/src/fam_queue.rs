//! QUEUE-LIN (C17): the collector's Michael-Scott queue (through the shim) under 1-3 producers
//! and 1-3 consumers; recorded histories are checked for linearizability against a sequential
//! FIFO with conditional pop, plus cheap invariants on long runs.

use std::collections::{BTreeMap, HashSet, VecDeque};
use std::sync::Arc;

use circ::verif::VQueue;

use crate::gen::swarm_cfg;
use crate::json::J;
use crate::ops::*;
use crate::rng::Rng;
use crate::sched::{self, sim, user_yield, Monitor, Outcome, ThreadSpec, Violation};

#[derive(Clone, Debug)]
pub struct QEv {
    pub tid: usize,
    pub kind: K,
    pub arg: u64,
    pub inv: u64,
    pub ret: u64,
    pub out: Option<u64>,
    /// last predicate evaluation inside a pop_if: (value, result)
    pub last_pred: Option<(u64, bool)>,
    pub pred_evals: u32,
}

static mut QHIST: Vec<QEv> = Vec::new();
/// elements whose destructor was run by the queue itself (the harness defuses every element it
/// is handed before dropping it, and the queue object is never dropped)
static mut QLIBDROPS: Vec<(u64, u64)> = Vec::new();

/// Queue payload with a destructor, as the collector's `SealedBag` has one.
pub struct QItem(u64);
impl QItem {
    fn take(mut self) -> u64 {
        std::mem::replace(&mut self.0, u64::MAX)
    }
}
impl Drop for QItem {
    #[allow(static_mut_refs)]
    fn drop(&mut self) {
        if self.0 != u64::MAX {
            if QUEUE_IS_BEING_DROPPED.load(std::sync::atomic::Ordering::Relaxed) {
                unsafe { QDROPPED_WITH_QUEUE.push(self.0) };
            } else {
                unsafe { QLIBDROPS.push((self.0, sim().seq)) };
            }
        }
    }
}
/// variant: instead of a final drain the queue object itself is dropped with elements left in it;
/// it owns them, so it has to release each of them exactly once
static QUEUE_IS_BEING_DROPPED: std::sync::atomic::AtomicBool = std::sync::atomic::AtomicBool::new(false);
static mut QDROPPED_WITH_QUEUE: Vec<u64> = Vec::new();
static mut SOFT: Vec<(String, String)> = Vec::new();

/// Predicates 0-4 are pure functions of the element. 5 and 6 have a memory (a caller may pass
/// any `Fn`): they can hold only at their first evaluation within one call (5: always then, 6:
/// for even sequence numbers), so whatever the queue does after an evaluation that said "yes"
/// must not depend on asking again.
pub fn impure(id: u64) -> bool {
    id >= 5
}

pub fn pred(id: u64, v: u64) -> bool {
    if id == 5 {
        return true;
    }
    if id == 6 {
        return v % 2 == 0;
    }
    match id % 5 {
        0 => true,
        1 => false,
        2 => v % 2 == 0,
        // monotone "expired" shape: sequence number below a threshold
        3 => (v & 0xFFFF) < 3,
        _ => (v >> 16) % 2 == 0,
    }
}

pub fn gen(prop: &str, seed: u64) -> RunDesc {
    let mut rng = Rng::new(seed);
    let mut cfg = RunCfg::default();
    let np = 1 + rng.below(3) as usize;
    let nc = 1 + rng.below(3) as usize;
    swarm_cfg(&mut rng, &mut cfg, np + nc, true);
    // hot sites of this family: raw pointer atomics and op boundaries
    if cfg.strategy == 2 {
        cfg.hot_mask = (1 << 8) | if rng.chance(0.5) { 1 << 9 } else { 0 };
    }
    let long = rng.chance(0.15);
    let total = if long { 60 + rng.below(140) as usize } else { 6 + rng.below(9) as usize };
    let mut threads = Vec::new();
    let per = (total / (np + nc)).max(1);
    for p in 0..np {
        let mut ops = Vec::new();
        let hold = rng.chance(0.3);
        if hold {
            ops.push(op(K::Pin, 0, 0, 0, 0));
        }
        let mut k = 0;
        for _ in 0..per {
            if rng.chance(0.85) {
                ops.push(op(K::QPush, ((p as u32) << 16) | k, 0, 0, 0));
                k += 1;
            } else {
                ops.push(op(K::QPop, 0, 0, 0, 0));
            }
        }
        if hold {
            ops.push(op(K::Unpin, 0, 0, 0, 0));
        }
        let mut t = ThreadProg::new(0, ops);
        t.name = "producer".into();
        threads.push(t);
    }
    for c in 0..nc {
        let mut ops = Vec::new();
        let hold = rng.chance(0.3);
        if hold {
            ops.push(op(K::Pin, 0, 0, 0, 0));
        }
        let mut k = 0;
        for _ in 0..per {
            match rng.below(10) {
                0 => {
                    ops.push(op(K::QPush, (((np + c) as u32) << 16) | k, 0, 0, 0));
                    k += 1;
                }
                1..=4 => ops.push(op(K::QPop, 0, 0, 0, 0)),
                _ => ops.push(op(K::QPopIf, rng.below(7) as u32, 0, 0, 0)),
            }
        }
        if hold {
            ops.push(op(K::Unpin, 0, 0, 0, 0));
        }
        let mut t = ThreadProg::new(0, ops);
        t.name = "consumer".into();
        threads.push(t);
    }
    if rng.chance(0.4) {
        let mut t = ThreadProg::new(0, crate::gen::ticker_ops(2 + rng.below(6) as usize));
        t.name = "ticker".into();
        threads.push(t);
    }
    if let Some(s) = cfg.stall.as_mut() {
        s.victim = rng.below((np + nc) as u64) as u32;
    }
    RunDesc { prop: prop.to_string(), family: "queue".into(), seed, cfg, threads, params: J::obj().set("long", long), schedule: None, buggify_script: None }
}

struct QMon;
impl Monitor for QMon {
    fn use_after_free(&mut self, _tid: usize, site: u32, addr: usize) -> (String, String) {
        ("C17".into(), format!("queue node at {:#x} accessed after it was freed ({})", addr, sched::site_name(site)))
    }
}

#[allow(static_mut_refs)]
fn body(tid: usize, q: &'static VQueue<QItem>, prog: &ThreadProg) {
    let mut guard: Option<circ::Guard> = None;
    for (i, o) in prog.ops.iter().enumerate() {
        sched::set_op(i as u32);
        user_yield();
        match o.k {
            K::Pin => {
                if guard.is_none() {
                    guard = Some(circ::cs());
                }
            }
            K::Unpin => guard = None,
            K::Flush => {
                if let Some(g) = &guard {
                    g.flush();
                }
            }
            K::QPush | K::QPop | K::QPopIf => {
                let tmp;
                let g = match &guard {
                    Some(g) => g,
                    None => {
                        tmp = circ::cs();
                        &tmp
                    }
                };
                let inv = sim().seq;
                let mut ev = QEv { tid, kind: o.k, arg: o.a as u64, inv, ret: 0, out: None, last_pred: None, pred_evals: 0 };
                match o.k {
                    K::QPush => q.push(QItem(o.a as u64), g),
                    K::QPop => ev.out = q.try_pop(g).map(QItem::take),
                    _ => {
                        let id = o.a as u64;
                        let last = std::cell::Cell::new(None);
                        let n = std::cell::Cell::new(0u32);
                        ev.out = q.try_pop_if(
                            |v| {
                                let r = pred(id, v.0) && !(impure(id) && n.get() > 0);
                                last.set(Some((v.0, r)));
                                n.set(n.get() + 1);
                                r
                            },
                            g,
                        ).map(QItem::take);
                        ev.last_pred = last.get();
                        ev.pred_evals = n.get();
                    }
                }
                ev.ret = sim().seq;
                unsafe { QHIST.push(ev) };
            }
            _ => {}
        }
    }
    sched::set_op(prog.ops.len() as u32);
    drop(guard);
}

fn apply(q: &VecDeque<u64>, e: &QEv) -> Option<VecDeque<u64>> {
    match e.kind {
        K::QPush => {
            let mut n = q.clone();
            n.push_back(e.arg);
            Some(n)
        }
        K::QPop => match (q.front(), e.out) {
            (None, None) => Some(q.clone()),
            (Some(&f), Some(x)) if f == x => {
                let mut n = q.clone();
                n.pop_front();
                Some(n)
            }
            _ => None,
        },
        _ if impure(e.arg) => match (q.front(), e.out) {
            // judged by what the predicate actually answered last in this call
            (None, None) => Some(q.clone()),
            (Some(&f), None) if e.last_pred == Some((f, false)) => Some(q.clone()),
            (Some(&f), Some(x)) if f == x && e.last_pred == Some((x, true)) => {
                let mut n = q.clone();
                n.pop_front();
                Some(n)
            }
            _ => None,
        },
        _ => match (q.front(), e.out) {
            (None, None) => Some(q.clone()),
            (Some(&f), None) if !pred(e.arg, f) => Some(q.clone()),
            (Some(&f), Some(x)) if f == x && pred(e.arg, f) => {
                let mut n = q.clone();
                n.pop_front();
                Some(n)
            }
            _ => None,
        },
    }
}

pub fn linearizable(ops: &[QEv]) -> bool {
    let n = ops.len();
    if n == 0 {
        return true;
    }
    let full: u64 = (1u64 << n) - 1;
    let mut seen: HashSet<(u64, Vec<u64>)> = HashSet::new();
    let mut stack: Vec<(u64, VecDeque<u64>)> = vec![(0, VecDeque::new())];
    while let Some((mask, st)) = stack.pop() {
        if mask == full {
            return true;
        }
        if !seen.insert((mask, st.iter().copied().collect())) {
            continue;
        }
        let mut min_ret = u64::MAX;
        for (i, e) in ops.iter().enumerate() {
            if mask & (1 << i) == 0 && e.ret < min_ret {
                min_ret = e.ret;
            }
        }
        for (i, e) in ops.iter().enumerate() {
            if mask & (1 << i) != 0 || e.inv > min_ret {
                continue;
            }
            if let Some(ns) = apply(&st, e) {
                stack.push((mask | (1 << i), ns));
            }
        }
    }
    false
}

fn fmt(e: &QEv) -> String {
    let v = |x: u64| format!("p{}.{}", x >> 16, x & 0xFFFF);
    match e.kind {
        K::QPush => format!("t{} [{}..{}] push({})", e.tid, e.inv, e.ret, v(e.arg)),
        K::QPop => format!("t{} [{}..{}] try_pop -> {}", e.tid, e.inv, e.ret, e.out.map(v).unwrap_or("None".into())),
        _ => format!("t{} [{}..{}] try_pop_if(pred{}) -> {}", e.tid, e.inv, e.ret, e.arg, e.out.map(v).unwrap_or("None".into())),
    }
}

#[allow(static_mut_refs)]
fn soft(sig: &str, det: String) {
    unsafe {
        if !SOFT.iter().any(|s| s.0 == sig) {
            SOFT.push((sig.to_string(), det));
        }
    }
}

#[allow(static_mut_refs)]
pub fn run(desc: &RunDesc) -> ! {
    crate::runner::init_library(&desc.cfg);
    let q: &'static VQueue<QItem> = Box::leak(Box::new(VQueue::new()));
    let progs: Arc<Vec<ThreadProg>> = Arc::new(desc.threads.clone());
    let mut specs = Vec::new();
    for (i, t) in desc.threads.iter().enumerate() {
        let progs = progs.clone();
        specs.push(ThreadSpec { phase: t.phase, stack: 1 << 20, name: "q", body: Arc::new(move |tid| body(tid, q, &progs[i])) });
    }
    // final drain by a thread running alone (or, in 30 % of the runs, the queue is dropped as it is)
    let drop_queue = crate::rng::Rng::new(desc.seed ^ 0x9D).chance(0.3);
    let n = desc.threads.len();
    specs.push(ThreadSpec {
        phase: 9,
        stack: 1 << 20,
        name: "drain",
        body: Arc::new(move |tid| {
            if drop_queue {
                sim().probe("queue_dropped_with_elements_left");
                QUEUE_IS_BEING_DROPPED.store(true, std::sync::atomic::Ordering::Relaxed);
                // (leaked above only to get a 'static reference for the threads, which are done)
                drop(unsafe { Box::from_raw(q as *const VQueue<QItem> as *mut VQueue<QItem>) });
                QUEUE_IS_BEING_DROPPED.store(false, std::sync::atomic::Ordering::Relaxed);
                for _ in 0..8 {
                    let g = circ::cs();
                    g.flush();
                    drop(g);
                }
                return;
            }
            let mut k = 0;
            loop {
                sched::set_op(k);
                k += 1;
                let g = circ::cs();
                let inv = sim().seq;
                let out = q.try_pop(&g).map(QItem::take);
                unsafe { QHIST.push(QEv { tid, kind: K::QPop, arg: 0, inv, ret: sim().seq, out, last_pred: None, pred_evals: 0 }) };
                drop(g);
                if out.is_none() {
                    break;
                }
            }
            for _ in 0..8 {
                let g = circ::cs();
                g.flush();
                drop(g);
            }
        }),
    });
    let sc = crate::runner::sim_config(desc, n + 1);
    sched::run(sc, Box::new(QMon), specs, Some(crate::runner::clock));
    // ---- oracles over the recorded history ----
    let hist: Vec<QEv> = unsafe { QHIST.clone() };
    let mut pushed: BTreeMap<u64, u64> = BTreeMap::new();
    let mut popped: BTreeMap<u64, u32> = BTreeMap::new();
    for e in &hist {
        if e.kind == K::QPush {
            pushed.insert(e.arg, e.inv);
        }
        if let Some(x) = e.out {
            *popped.entry(x).or_insert(0) += 1;
            if e.kind == K::QPopIf {
                // the predicate must have held for the very element that was removed
                match e.last_pred {
                    Some((v, true)) if v == x => {}
                    other => soft("pop_if-predicate-not-on-popped-element", format!("{}: last predicate evaluation was {:?}", fmt(e), other)),
                }
                if !impure(e.arg) && !pred(e.arg, x) {
                    soft("pop_if-removed-failing-element", format!("{} although the predicate is false for it", fmt(e)));
                }
            }
        }
    }
    for (x, at) in unsafe { QLIBDROPS.iter() } {
        soft("element-destroyed-by-queue", format!("the queue ran the destructor of element p{}.{} itself (at seq {}); elements are owned by the queue until a pop hands them to its caller", x >> 16, x & 0xFFFF, at));
    }
    for (x, c) in &popped {
        if *c > 1 {
            soft("popped-twice", format!("element p{}.{} was popped {} times", x >> 16, x & 0xFFFF, c));
        }
        if !pushed.contains_key(x) {
            soft("popped-never-pushed", format!("element {:#x} was popped but never pushed", x));
        }
    }
    #[allow(static_mut_refs)]
    let with_queue: Vec<u64> = unsafe { QDROPPED_WITH_QUEUE.clone() };
    if drop_queue {
        for x in pushed.keys() {
            let c = with_queue.iter().filter(|y| *y == x).count();
            if !popped.contains_key(x) && c != 1 {
                soft("element-not-released-once-with-queue", format!("element p{}.{} was still in the queue when the queue was dropped and its destructor ran {} times", x >> 16, x & 0xFFFF, c));
            }
            if popped.contains_key(x) && c != 0 {
                soft("popped-twice", format!("element p{}.{} had been popped and was released again when the queue was dropped", x >> 16, x & 0xFFFF));
            }
        }
    }
    for x in pushed.keys() {
        if !popped.contains_key(x) && !drop_queue {
            soft("element-lost", format!("element p{}.{} was pushed but not popped by anyone, including the final drain", x >> 16, x & 0xFFFF));
        }
    }
    // per consumer thread and producer: popped in push order
    let mut last: BTreeMap<(usize, u64), u64> = BTreeMap::new();
    for e in &hist {
        if let Some(x) = e.out {
            let key = (e.tid, x >> 16);
            if let Some(&prev) = last.get(&key) {
                if (x & 0xFFFF) < (prev & 0xFFFF) {
                    soft("fifo-order-violated", format!("t{} popped p{}.{} after p{}.{}", e.tid, x >> 16, x & 0xFFFF, prev >> 16, prev & 0xFFFF));
                }
            }
            last.insert(key, x);
        }
    }
    let mut lin_checked = 0;
    let mut concurrent_pairs = 0u64;
    if hist.len() <= 26 {
        let mut ops = hist.clone();
        ops.sort_by_key(|e| (e.inv, e.ret, e.tid));
        for i in 0..ops.len() {
            for j in i + 1..ops.len() {
                if ops[i].tid != ops[j].tid && ops[j].inv <= ops[i].ret && ops[i].inv <= ops[j].ret {
                    concurrent_pairs += 1;
                }
            }
        }
        lin_checked = 1;
        if !linearizable(&ops) {
            soft("not-linearizable", format!("history is not linearizable as a FIFO queue with conditional pop: {}", ops.iter().map(fmt).collect::<Vec<_>>().join(" | ")));
        }
    }
    if desc.cfg.quarantine {
        if let Some(a) = crate::alloc::verify_poison() {
            soft("write-after-free", format!("freed memory at {:#x} was written after it was freed", a));
        }
    }
    crate::runner::set_extra("fam", J::obj().set("queue_ops", hist.len()).set("lin_checked", lin_checked).set("concurrent_pairs", concurrent_pairs).set("pops_some", popped.len()).set("pop_if_calls", hist.iter().filter(|e| e.kind == K::QPopIf).count()));
    let softs = unsafe { SOFT.clone() };
    crate::runner::set_extra("soft", J::Arr(softs.iter().map(|(s, d)| J::obj().set("prop", "C17").set("props", J::Arr(vec![J::Str("C17".into())])).set("signature", format!("C17/{}", s)).set("detail", d.as_str()).set("seq", 0)).collect()));
    let outcome = match softs.first() {
        Some((s, d)) => Outcome::Violation(Violation { prop: "C17".into(), kind: "soft".into(), signature: format!("C17/{}", s), detail: d.clone(), seq: sim().seq }),
        None => Outcome::Ok,
    };
    sim().finish(outcome)
}
