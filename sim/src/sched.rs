//! The simulator core: real threads, exactly one runnable at a time (baton), every scheduling
//! decision drawn from the run's PRNG (or from a recorded script when replaying).

use std::cell::Cell;
use std::sync::atomic::{AtomicUsize, Ordering::*};
use std::sync::Arc;
use std::thread::{self, Thread};

use crate::alloc;
use crate::json::J;
use crate::rng::{mix, Rng};
use crate::shm;

pub const NONE: usize = usize::MAX;
pub const MAIN: usize = usize::MAX - 1;

/// Site id used by the harness itself at op boundaries.
pub const SITE_USER: u32 = 100;
pub const SITE_EXIT: u32 = 101;
pub const SITE_BLOCK: u32 = 102;
/// harness yield inside a library call (payload destructor): never an op boundary
pub const SITE_INNER: u32 = 103;
pub const NSITES: usize = 104;

thread_local! {
    static MY_TID: Cell<usize> = const { Cell::new(NONE) };
}
static TURN: AtomicUsize = AtomicUsize::new(MAIN);
static mut SIM: *mut Sim = std::ptr::null_mut();

pub fn my_tid() -> usize {
    MY_TID.with(|c| c.get())
}

/// The simulator state. Only ever touched by the thread that holds the baton.
#[allow(clippy::mut_from_ref)]
pub fn sim() -> &'static mut Sim {
    unsafe { &mut *SIM }
}
pub fn sim_installed() -> bool {
    unsafe { !SIM.is_null() }
}

#[derive(Clone, Copy, PartialEq, Eq, Debug)]
pub enum TState {
    Runnable,
    Blocked(u32),
    Finished,
}

pub struct SimThread {
    /// position for schedule recording: index of the op being executed, steps made inside it
    pub op_idx: u32,
    pub op_step: u32,
    pub state: TState,
    pub phase: u32,
    pub steps: u64,
    /// body returned; thread-local destructors are (or will be) running
    pub exiting: bool,
    /// parked at (or about to leave) an op boundary: not inside any library call
    pub at_boundary: bool,
    pub name: &'static str,
}

#[derive(Clone, Debug)]
pub enum Strategy {
    /// switch with probability p at every step
    Random { p: f64 },
    /// PCT: strict priorities, `change` = steps at which the running thread's priority drops
    Pct { prio: Vec<u32>, change: Vec<u64>, next_low: u32 },
    /// switch with high probability at "hot" sites and rarely elsewhere
    HotSite { hot: [bool; NSITES], p_hot: f64, p_cold: f64 },
}

/// "Slow node" fault: freeze `victim` at the n-th hit of a trigger site until the epoch clock
/// has advanced by k (or nobody else can run).
#[derive(Clone, Debug)]
pub struct Stall {
    pub victim: usize,
    /// site that triggers the freeze (NSITES = any site)
    pub site: u32,
    pub nth: u32,
    pub k: u64,
    pub release_signal: u32,
    pub only_unpinned: bool,
    // dynamic
    pub hits: u32,
    pub frozen_at_epoch: Option<u64>,
    pub done: bool,
}

#[derive(Default, Clone)]
pub struct Stats {
    pub steps: u64,
    pub switches: u64,
    pub site_hits: Vec<u64>,
    pub faults: std::collections::BTreeMap<&'static str, u64>,
    pub probes: std::collections::BTreeMap<&'static str, u64>,
    pub epoch_advances: u64,
    pub forced_unblock: u64,
}

pub struct Violation {
    pub prop: String,
    pub kind: String,
    pub signature: String,
    pub detail: String,
    pub seq: u64,
}

pub struct Sim {
    pub threads: Vec<SimThread>,
    pub handles: Vec<Option<Thread>>,
    pub main_handle: Thread,
    pub cur: usize,
    pub seq: u64,
    pub rng: Rng,
    pub strategy: Strategy,
    pub stall: Option<Stall>,
    pub step_cap: u64,
    pub replay: Option<ReplayCursor>,
    pub stats: Stats,
    pub hash: u64,
    pub ileave_hash: u64,
    pub trace: Vec<(u32, u32, u32, u64)>, // ring of (seq low, tid, site, value)
    pub trace_pos: usize,
    pub signals: Vec<bool>,
    pub default_prop: String,
    /// family-specific monitors
    pub mon: Box<dyn Monitor>,
    /// buggify: fire with this probability at enabled sites
    pub buggify_p: f64,
    pub buggify_sites: [bool; 8],
    pub buggify_streak: u32,
    pub buggify_script: Option<Vec<u64>>,
    pub buggify_fired: Vec<u64>,
    pub buggify_calls: u64,
    /// epoch clock reader (None until a collector exists)
    pub clock: Option<fn() -> u64>,
    pub last_epoch: u64,
    pub uaf_check: bool,
    pub finished: bool,
}

/// Family-specific observers invoked inside simulator steps.
pub trait Monitor {
    /// After resumption, immediately before thread `tid` performs the access at `site`.
    fn pre_access(&mut self, _tid: usize, _site: u32, _addr: usize, _a: usize, _b: usize) {}
    fn event(&mut self, _tid: usize, _kind: u32, _a: usize, _b: usize, _c: usize) {}
    /// A registered block was freed (reported in the step in which it happened).
    fn freed(&mut self, _tid: usize, _addr: usize) {}
    /// Called on every step before scheduling (cheap invariants).
    fn on_step(&mut self, _tid: usize, _site: u32) {}
    fn use_after_free(&mut self, _tid: usize, _site: u32, addr: usize) -> (String, String) {
        (String::new(), format!("access to freed address {:#x}", addr))
    }
    /// Every simulated thread is at an op boundary (none is inside a library call).
    fn quiescent(&mut self, _tid: usize) {}
}
pub struct NoMonitor;
impl Monitor for NoMonitor {}

pub struct ReplayCursor {
    pub script: Vec<(u32, u32, u32, u32)>,
    pub idx: usize,
    pub diverged: u64,
}

pub const OP_EXIT: u32 = u32::MAX;
pub const MAIN32: u32 = u32::MAX - 1;

/// Tell the scheduler that the calling thread starts its op number `idx`.
pub fn set_op(idx: u32) {
    let me = my_tid();
    if me == NONE || !sim_installed() {
        return;
    }
    let t = &mut sim().threads[me];
    t.op_idx = idx;
    t.op_step = 0;
}

pub struct ThreadSpec {
    pub phase: u32,
    pub stack: usize,
    pub name: &'static str,
    pub body: Arc<dyn Fn(usize) + Send + Sync>,
}

pub struct SimConfig {
    pub seed: u64,
    pub strategy: Strategy,
    pub stall: Option<Stall>,
    pub step_cap: u64,
    pub replay: Option<Vec<(u32, u32, u32, u32)>>,
    pub default_prop: String,
    pub buggify_p: f64,
    pub buggify_sites: [bool; 8],
    pub buggify_script: Option<Vec<u64>>,
    pub uaf_check: bool,
}

pub fn site_name(s: u32) -> &'static str {
    match s {
        1 => "inc_strong.fa1",
        2 => "inc_strong.fa2",
        3 => "try_dealloc.load",
        4 => "inc_weak.load",
        5 => "inc_weak.cas",
        6 => "inc_weak.fa1",
        7 => "inc_weak.fa2",
        8 => "dec_weak.fs",
        9 => "not_destructed.load",
        10 => "not_destructed.cas",
        11 => "dec_strong.load",
        12 => "dec_strong.cas",
        13 => "try_destruct.load",
        14 => "try_destruct.cas",
        15 => "dispose.load",
        16 => "dispose.weaked_load",
        17 => "dispose.child_load",
        18 => "dispose.child_cas",
        30 => "arc.load",
        31 => "arc.store",
        32 => "arc.swap",
        33 => "arc.cas",
        34 => "arc.cas_weak",
        35 => "arc.cas_tag",
        40 => "aw.load",
        41 => "aw.store",
        42 => "aw.swap",
        43 => "aw.cas",
        44 => "aw.cas_weak",
        45 => "aw.cas_tag",
        50 => "epoch.load",
        51 => "epoch.store",
        52 => "epoch.cas",
        60 => "raw.load",
        61 => "raw.store",
        62 => "raw.cas",
        63 => "raw.cas_weak",
        64 => "raw.fetch_or",
        70 => "auto",
        100 => "user",
        101 => "exit",
        102 => "block",
        103 => "user.inner",
        _ => "?",
    }
}

impl Sim {
    pub fn fault(&mut self, name: &'static str) {
        *self.stats.faults.entry(name).or_insert(0) += 1;
    }
    pub fn probe(&mut self, name: &'static str) {
        *self.stats.probes.entry(name).or_insert(0) += 1;
    }
    pub fn fold(&mut self, a: u64, b: u64) {
        self.hash = mix(&[self.hash, a, b]);
    }

    fn runnable(&self, t: usize) -> bool {
        let th = &self.threads[t];
        if th.state != TState::Runnable {
            return false;
        }
        // a phase opens when all threads of lower phases have finished
        self.threads
            .iter()
            .all(|o| o.phase >= th.phase || o.state == TState::Finished)
    }

    fn candidates(&mut self) -> Vec<usize> {
        let mut c: Vec<usize> = (0..self.threads.len()).filter(|&t| self.runnable(t)).collect();
        if c.is_empty() && self.threads.iter().any(|t| matches!(t.state, TState::Blocked(_))) {
            // every live thread waits for a signal nobody can send any more: release them all
            self.stats.forced_unblock += 1;
            for t in self.threads.iter_mut() {
                if matches!(t.state, TState::Blocked(_)) {
                    t.state = TState::Runnable;
                }
            }
            c = (0..self.threads.len()).filter(|&t| self.runnable(t)).collect();
        }
        c
    }

    fn now_epoch(&self) -> u64 {
        match self.clock {
            Some(f) => f(),
            None => 0,
        }
    }

    /// Decide who runs next. `me` is the thread making the step (may be no longer runnable).
    fn pick_next(&mut self, me: usize, site: u32) -> usize {
        let mut cands = self.candidates();
        if cands.is_empty() {
            return MAIN;
        }
        if self.replay.is_some() {
            return self.pick_replay(me, site, &cands);
        }
        // stall fault
        if self.stall.is_some() {
            let epoch = self.now_epoch();
            let mut fired: Option<&'static str> = None;
            let signals = &self.signals;
            let st = self.stall.as_mut().unwrap();
            if !st.done {
                if st.frozen_at_epoch.is_none() && me == st.victim && (st.site == NSITES as u32 || st.site == site) {
                    st.hits += 1;
                    if st.hits == st.nth {
                        st.frozen_at_epoch = Some(epoch);
                    }
                }
                if let Some(e0) = st.frozen_at_epoch {
                    let by_signal = st.release_signal != 0 && signals.get(st.release_signal as usize).copied().unwrap_or(false);
                    if by_signal || (st.release_signal == 0 && epoch >= e0 + st.k) {
                        st.done = true;
                        let k = epoch.saturating_sub(e0);
                        fired = Some(if k >= 16 { "stall_ge16_epochs" } else if k >= 3 { "stall_3_15_epochs" } else { "stall_lt3_epochs" });
                    } else if cands.len() > 1 || !cands.contains(&st.victim) {
                        cands.retain(|&t| t != st.victim);
                    } else {
                        // nobody else can run: release early (also a legal schedule)
                        st.done = true;
                        fired = Some("stall_released_early");
                    }
                }
            }
            if let Some(f) = fired {
                self.fault(f);
            }
        }
        if cands.len() == 1 {
            return cands[0];
        }
        let me_ok = cands.contains(&me);
        match &mut self.strategy {
            Strategy::Random { p } => {
                let p = *p;
                if me_ok && !self.rng.chance(p) {
                    me
                } else {
                    cands[self.rng.below(cands.len() as u64) as usize]
                }
            }
            Strategy::HotSite { hot, p_hot, p_cold } => {
                let p = if hot[(site as usize).min(NSITES - 1)] { *p_hot } else { *p_cold };
                if me_ok && !self.rng.chance(p) {
                    me
                } else {
                    let others: Vec<usize> = cands.iter().copied().filter(|&t| t != me).collect();
                    if others.is_empty() {
                        me
                    } else {
                        others[self.rng.below(others.len() as u64) as usize]
                    }
                }
            }
            Strategy::Pct { prio, change, next_low } => {
                if me_ok && change.contains(&self.seq) {
                    prio[me] = *next_low;
                    *next_low = next_low.saturating_sub(1);
                }
                let mut best = cands[0];
                for &t in &cands {
                    if prio[t] > prio[best] {
                        best = t;
                    }
                }
                best
            }
        }
    }

    /// Scripted scheduler: follow the recorded context switches by *position* (thread, op index,
    /// step within op), which survives removal of ops and threads during minimisation. When the
    /// script is exhausted or names a thread that cannot run: continue current, else lowest id.
    fn pick_replay(&mut self, me: usize, site: u32, cands: &[usize]) -> usize {
        let forced = site == SITE_EXIT || site == SITE_BLOCK || me == MAIN || !cands.contains(&me);
        let fallback = if cands.contains(&me) { me } else { cands[0] };
        let (pos_op, pos_step) = if me < self.threads.len() { (self.threads[me].op_idx, self.threads[me].op_step) } else { (0, 0) };
        let states: Vec<bool> = (0..self.threads.len()).map(|t| cands.contains(&t)).collect();
        let rc = self.replay.as_mut().unwrap();
        loop {
            let Some(&(from, op, step, to)) = rc.script.get(rc.idx) else { return fallback };
            let from_me = (me == MAIN && from == MAIN32) || from as usize == me;
            if !from_me {
                // the script expects another thread to be running
                let f = from as usize;
                if from != MAIN32 && f < states.len() && states[f] {
                    // get back on script
                    rc.diverged += 1;
                    return f;
                }
                // that thread cannot run (finished/blocked/removed): the entry is stale
                rc.idx += 1;
                rc.diverged += 1;
                continue;
            }
            if forced || (pos_op, pos_step) >= (op, step) {
                rc.idx += 1;
                let t = to as usize;
                if t < states.len() && states[t] {
                    return t;
                }
                if to != MAIN32 {
                    rc.diverged += 1;
                }
                if forced {
                    return fallback;
                }
                continue;
            }
            return fallback;
        }
    }

    fn log_decision(&mut self, me: usize, site: u32, next: usize) {
        if next == me && site != SITE_EXIT && site != SITE_BLOCK {
            return;
        }
        let (from, op, step) = if me == MAIN {
            (MAIN32, 0, 0)
        } else {
            let t = &self.threads[me];
            (me as u32, if site == SITE_EXIT { OP_EXIT } else { t.op_idx }, t.op_step)
        };
        let to = if next == MAIN { MAIN32 } else { next as u32 };
        shm::sched_push(from, op, step, to);
    }

    /// One simulator step made by thread `me` at `site`.
    fn step(&mut self, me: usize, site: u32, addr: usize, a: usize, b: usize) {
        debug_assert_eq!(TURN.load(Relaxed), me);
        self.drain_frees(me);
        self.seq += 1;
        self.stats.steps += 1;
        self.threads[me].steps += 1;
        self.threads[me].op_step += 1;
        let si = (site as usize).min(NSITES - 1);
        self.stats.site_hits[si] += 1;
        let tp = self.trace_pos % self.trace.len();
        let val = match site {
            51 | 52 => (if site == 52 { b } else { a }) as u64,
            50 if addr != 0 => crate::shadow::read_word(addr) as u64,
            _ => 0,
        };
        self.trace[tp] = (self.seq as u32, me as u32, site, val);
        self.trace_pos += 1;
        self.hash = mix(&[self.hash, me as u64, site as u64]);
        if self.uaf_check && addr != 0 && alloc::is_freed(addr) {
            let (prop, detail) = self.mon.use_after_free(me, site, addr);
            let prop = if prop.is_empty() { self.default_prop.clone() } else { prop };
            self.violation(&prop, "use-after-free", &format!("uaf/{}", site_name(site)), &detail);
        }
        if let Some(f) = self.clock {
            let e = f();
            if e != self.last_epoch {
                self.stats.epoch_advances = self.stats.epoch_advances.wrapping_add(e.wrapping_sub(self.last_epoch) & (u64::MAX >> 1));
                self.last_epoch = e;
            }
        }
        self.mon.on_step(me, site);
        if site == SITE_USER && self.threads.iter().all(|t| t.at_boundary || t.state == TState::Finished || matches!(t.state, TState::Blocked(_))) {
            self.mon.quiescent(me);
        }
        if self.seq > self.step_cap {
            self.finish(Outcome::StepCap);
        }
        let next = self.pick_next(me, site);
        self.log_decision(me, site, next);
        if next != me {
            self.stats.switches += 1;
            self.ileave_hash = mix(&[self.ileave_hash, me as u64, site as u64, next as u64]);
            self.switch_from(me, next);
        }
        // we hold the baton again and the access happens next
        let s = sim();
        s.mon.pre_access(me, site, addr, a, b);
    }

    fn switch_from(&mut self, me: usize, next: usize) {
        self.cur = next;
        hand_to(self, next);
        wait_turn(me);
    }

    pub fn drain_frees(&mut self, me: usize) {
        while let Some(addr) = alloc::pop_freed() {
            self.mon.freed(me, addr);
        }
    }

    /// Block the calling thread until signal `k` is raised.
    pub fn await_signal(&mut self, me: usize, k: u32) {
        if self.signals.get(k as usize).copied().unwrap_or(false) {
            return;
        }
        self.threads[me].state = TState::Blocked(k);
        self.seq += 1;
        let next = self.pick_next(me, SITE_BLOCK);
        self.log_decision(me, SITE_BLOCK, next);
        if next == me {
            return;
        }
        if next == MAIN {
            // cannot happen: candidates() unblocks; be defensive
            self.threads[me].state = TState::Runnable;
            return;
        }
        self.stats.switches += 1;
        self.switch_from(me, next);
    }

    pub fn raise_signal(&mut self, k: u32) {
        if (k as usize) >= self.signals.len() {
            self.signals.resize(k as usize + 1, false);
        }
        self.signals[k as usize] = true;
        for t in self.threads.iter_mut() {
            if t.state == TState::Blocked(k) {
                t.state = TState::Runnable;
            }
        }
    }

    /// Called by the reaper once the OS thread of `tid` has completely exited.
    fn thread_exited(&mut self, tid: usize) {
        self.drain_frees(tid);
        self.threads[tid].state = TState::Finished;
        self.seq += 1;
        self.hash = mix(&[self.hash, tid as u64, SITE_EXIT as u64]);
        let next = self.pick_next(tid, SITE_EXIT);
        self.log_decision(tid, SITE_EXIT, next);
        self.cur = next;
        hand_to(self, next);
    }

    pub fn violation(&mut self, prop: &str, kind: &str, signature: &str, detail: &str) -> ! {
        // `prop` may list several properties ("C05,C01"): the first names the signature
        let first = prop.split(',').next().unwrap_or(prop);
        let v = Violation {
            prop: prop.to_string(),
            kind: kind.to_string(),
            signature: format!("{}/{}", first, signature),
            detail: detail.to_string(),
            seq: self.seq,
        };
        self.finish(Outcome::Violation(v))
    }

    pub fn harness_error(&mut self, msg: &str) -> ! {
        self.finish(Outcome::HarnessError(msg.to_string()))
    }

    pub fn trace_tail(&self) -> J {
        let n = self.trace.len();
        let mut out = Vec::new();
        let start = self.trace_pos.saturating_sub(n);
        for i in start..self.trace_pos {
            let (s, t, site, val) = self.trace[i % n];
            if (50..=52).contains(&site) {
                // epoch words: value and pinned bit
                out.push(J::Str(format!("{}:t{}:{}={}{}", s, t, site_name(site), val >> 1, if val & 1 == 1 { "p" } else { "" })));
            } else {
                out.push(J::Str(format!("{}:t{}:{}", s, t, site_name(site))));
            }
        }
        J::Arr(out)
    }

    /// Write the result record and terminate the process (we are in a forked child).
    pub fn finish(&mut self, outcome: Outcome) -> ! {
        self.finished = true;
        let mut j = J::obj();
        match &outcome {
            Outcome::Ok => j.put("outcome", "ok"),
            Outcome::StepCap => j.put("outcome", "stepcap"),
            Outcome::HarnessError(m) => {
                j.put("outcome", "harness_error");
                j.put("detail", m.as_str());
            }
            Outcome::Violation(v) => {
                j.put("outcome", "violation");
                j.put("prop", v.prop.split(',').next().unwrap_or(""));
                j.put("props", J::Arr(v.prop.split(',').map(|p| J::Str(p.to_string())).collect()));
                j.put("kind", v.kind.as_str());
                j.put("signature", v.signature.as_str());
                j.put("detail", v.detail.as_str());
                j.put("vseq", v.seq);
            }
        }
        if !matches!(outcome, Outcome::Ok) {
            j.put("trace_tail", self.trace_tail());
        }
        j.put("hash", self.hash);
        j.put("ileave", self.ileave_hash);
        j.put("steps", self.stats.steps);
        j.put("seq", self.seq);
        j.put("switches", self.stats.switches);
        j.put("epochs", self.stats.epoch_advances);
        j.put("forced_unblock", self.stats.forced_unblock);
        if let Some(rc) = &self.replay {
            j.put("replay_diverged", rc.diverged);
        }
        let mut sh = Vec::new();
        for (i, &h) in self.stats.site_hits.iter().enumerate() {
            if h > 0 {
                sh.push(J::Arr(vec![J::Int(i as i64), J::Int(h as i64)]));
            }
        }
        j.put("sites", J::Arr(sh));
        let mut f = J::obj();
        for (k, v) in &self.stats.faults {
            f.put(k, *v);
        }
        j.put("faults", f);
        let mut p = J::obj();
        for (k, v) in &self.stats.probes {
            p.put(k, *v);
        }
        j.put("probes", p);
        j.put("buggify_fired", J::Arr(self.buggify_fired.iter().map(|&x| J::Int(x as i64)).collect()));
        j.put("extra", crate::runner::extra_result());
        shm::write_result(&j.to_string());
        unsafe { libc::_exit(0) }
    }
}

pub enum Outcome {
    Ok,
    StepCap,
    HarnessError(String),
    Violation(Violation),
}

fn hand_to(s: &mut Sim, next: usize) {
    TURN.store(next, SeqCst);
    if next == MAIN {
        s.main_handle.unpark();
    } else if let Some(h) = &s.handles[next] {
        h.unpark();
    }
}

fn wait_turn(me: usize) {
    while TURN.load(SeqCst) != me {
        thread::park();
    }
}

// ---- hook entry points (installed into circ::verif) ----

pub fn hook_yp(site: u32, addr: usize, a: usize, b: usize) {
    let me = my_tid();
    if me == NONE || !sim_installed() {
        return;
    }
    sim().step(me, site, addr, a, b);
}

pub fn hook_ev(kind: u32, a: usize, b: usize, c: usize) {
    let me = my_tid();
    if me == NONE || !sim_installed() {
        return;
    }
    let s = sim();
    s.drain_frees(me);
    s.hash = mix(&[s.hash, 0xE0 + kind as u64, me as u64]);
    s.mon.event(me, kind, a, b, c);
}

pub fn hook_buggify(site: u32) -> bool {
    let me = my_tid();
    if me == NONE || !sim_installed() {
        return false;
    }
    let s = sim();
    s.buggify_calls += 1;
    let fire = if let Some(script) = &s.buggify_script {
        script.contains(&s.buggify_calls)
    } else {
        // never more than 3 in a row: the code loops on spurious failure
        s.buggify_sites[(site as usize).min(7)] && s.buggify_streak < 3 && s.rng.chance(s.buggify_p)
    };
    if fire {
        s.buggify_streak += 1;
        s.buggify_fired.push(s.buggify_calls);
        shm::bug_push(s.buggify_calls);
        s.fault("cas_weak_spurious");
    } else {
        s.buggify_streak = 0;
    }
    fire
}

pub static HOOKS: circ::verif::Hooks = circ::verif::Hooks {
    yp: hook_yp,
    ev: hook_ev,
    buggify: hook_buggify,
};

/// Yield point at an op boundary of the harness' own interpreter.
pub fn user_yield() {
    let me = my_tid();
    if me == NONE {
        return;
    }
    sim().threads[me].at_boundary = true;
    sim().step(me, SITE_USER, 0, 0, 0);
    sim().threads[me].at_boundary = false;
}

/// Yield point inside harness code that runs in the middle of a library call (a payload
/// destructor during collection): schedulable like any other step, but not an op boundary.
pub fn inner_yield() {
    let me = my_tid();
    if me == NONE || !sim_installed() {
        return;
    }
    sim().step(me, SITE_INNER, 0, 0, 0);
}

// ---- running a simulation ----

/// Run the given threads to completion under the simulator. Returns to the caller (the child
/// process' main thread) when every simulated thread has exited.
pub fn run(cfg: SimConfig, mon: Box<dyn Monitor>, specs: Vec<ThreadSpec>, clock: Option<fn() -> u64>) {
    let n = specs.len();
    let mut rng = Rng::new(mix(&[cfg.seed, 0x5C4ED]));
    let _ = rng.next();
    let threads = specs
        .iter()
        .map(|s| SimThread { op_idx: 0, op_step: 0, state: TState::Runnable, phase: s.phase, steps: 0, exiting: false, at_boundary: true, name: s.name })
        .collect();
    let s = Box::new(Sim {
        threads,
        handles: (0..n).map(|_| None).collect(),
        main_handle: thread::current(),
        cur: MAIN,
        seq: 0,
        rng,
        strategy: cfg.strategy,
        stall: cfg.stall,
        step_cap: cfg.step_cap,
        replay: cfg.replay.map(|script| ReplayCursor { script, idx: 0, diverged: 0 }),
        stats: Stats { site_hits: vec![0; NSITES], ..Default::default() },
        hash: 0,
        ileave_hash: 0,
        trace: vec![(0, 0, 0, 0); 200],
        trace_pos: 0,
        signals: vec![false; 16],
        default_prop: cfg.default_prop,
        mon,
        buggify_p: cfg.buggify_p,
        buggify_sites: cfg.buggify_sites,
        buggify_streak: 0,
        buggify_script: cfg.buggify_script,
        buggify_fired: Vec::new(),
        buggify_calls: 0,
        clock,
        last_epoch: clock.map(|f| f()).unwrap_or(0),
        uaf_check: cfg.uaf_check,
        finished: false,
    });
    unsafe {
        SIM = Box::into_raw(s);
    }
    if sim().last_epoch > (1 << 62) {
        // clock jump: the run starts a few ticks before the 63-bit epoch counter wraps
        sim().fault("clock_near_wrap");
    }
    TURN.store(MAIN, SeqCst);
    let mut reapers = Vec::new();
    for (tid, spec) in specs.into_iter().enumerate() {
        let body = spec.body.clone();
        let jh = thread::Builder::new()
            .stack_size(spec.stack)
            .spawn(move || {
                MY_TID.with(|c| c.set(tid));
                wait_turn(tid);
                let r = std::panic::catch_unwind(std::panic::AssertUnwindSafe(|| body(tid)));
                if let Err(e) = r {
                    crate::runner::on_thread_panic(tid, e);
                }
                let s = sim();
                s.threads[tid].exiting = true;
                // thread-local destructors run after this returns, still under the scheduler
            })
            .expect("spawn sim thread");
        sim().handles[tid] = Some(jh.thread().clone());
        let r = thread::Builder::new()
            .stack_size(64 << 10)
            .spawn(move || {
                let res = jh.join();
                // we now act for `tid`, which held the baton when it exited
                if res.is_err() {
                    sim().harness_error("simulated thread panicked outside catch_unwind (TLS destructor?)");
                }
                sim().thread_exited(tid);
            })
            .expect("spawn reaper");
        reapers.push(r);
    }
    // start: pick the first thread
    let s = sim();
    let first = s.pick_next(MAIN, SITE_USER);
    s.log_decision(MAIN, SITE_USER, first);
    if first != MAIN {
        s.cur = first;
        hand_to(s, first);
        wait_turn(MAIN);
    }
    for r in reapers {
        let _ = r.join();
    }
    let s = sim();
    s.drain_frees(MAIN);
}
