//! `circ-sim check <property> <tier>`: seeded search over programs x schedules x faults for one
//! property, on forked children driven from single-threaded worker processes; classification
//! of what was found against the known-findings file; minimisation; evidence.

use std::collections::{BTreeMap, HashSet};
use std::io::Write;
use std::time::Instant;

use crate::json::J;
use crate::ops::RunDesc;
use crate::rng::{hash_str, mix};
use crate::runner::{self, Res, RunResult};

pub struct PlanEntry {
    pub family: &'static str,
    pub weight: u32,
}

pub fn plan(prop: &str) -> Vec<PlanEntry> {
    let p = |family, weight| PlanEntry { family, weight };
    match prop {
        "C01" => vec![p("rc-mixed", 5), p("rc-weak", 2), p("rc-bulk", 1), p("dir-t4", 1), p("dir-t3", 2), p("dir-t1", 1), p("dir-t7", 1), p("dir-t8", 1), p("chain-weak", 1), p("client", 1), p("dir-t16", 1)],
        "C02" => vec![p("rc-mixed", 3), p("rc-weak", 1), p("dir-t1", 3), p("dir-t2", 3), p("dir-t3", 2), p("dir-t5", 1), p("dir-t8", 2), p("dir-t9", 1), p("dir-t10", 1), p("dir-t14", 1), p("client", 2), p("dir-t16", 1)],
        "C03" => vec![p("rc-weak", 4), p("rc-mixed", 1), p("dir-t4", 2), p("dir-t7", 3), p("dir-t8", 1), p("dir-t10", 1), p("dir-t14", 1)],
        "C04" => vec![p("rc-mixed", 3), p("rc-bulk", 2), p("rc-weak", 2), p("tls", 1), p("dir-t6", 1), p("dir-t7", 1), p("dir-t4", 1), p("dir-t3", 1), p("client", 1)],
        "C05" => vec![p("rc-weak", 8), p("dir-t3", 8), p("rc-mixed", 2), p("dir-t7", 2), p("dir-t2", 3), p("dir-t5", 3), p("dir-t14", 2), p("chain-weak", 1)],
        "C06" => vec![p("chain", 6), p("dir-t6", 1), p("dir-t9", 1)],
        "C07" => vec![p("chain-stack", 1)],
        "C08" => vec![p("rc-cells", 4), p("dir-c", 2), p("client", 1)],
        "C09" => vec![p("rc-wcells", 2), p("dir-w", 2)],
        "C10" => vec![p("rc-bulk", 5), p("dir-b", 1)],
        "C12" => vec![p("agesweep", 4), p("rc-mixed", 2), p("rc-bulk", 1), p("dir-t6", 2), p("dir-t9", 1)],
        "C13" => vec![p("ebr", 3), p("ebr-churn", 2), p("ebr-longcs", 3), p("ebr-private", 1), p("rc-mixed", 1), p("dir-t9", 1), p("dir-t16", 1), p("chain-mid", 1), p("dir-t2", 1), p("dir-t14", 1)],
        "C14" => vec![p("ebr", 2), p("ebr-churn", 3), p("ebr-longcs", 2), p("dir-t12", 2), p("guards", 1), p("rc-mixed", 1), p("rc-bulk", 1), p("dir-t6", 1)],
        "C15" => vec![p("ebr", 3), p("ebr-churn", 2), p("ebr-private", 2), p("tls", 1), p("dir-t13", 1), p("dir-t18", 1)],
        "C16" => vec![p("guards", 4), p("ebr", 1), p("ebr-longcs", 2), p("rc-mixed", 1), p("dir-t6", 1), p("dir-t8", 1), p("dir-t12", 1), p("dir-t17", 1), p("dir-t19", 1)],
        "C17" => vec![p("queue", 1)],
        "C18" => vec![p("list", 3), p("ebr-churn", 2), p("dir-t12", 1)],
        "C20" => vec![p("tls", 6), p("ebr-churn", 2), p("dir-t10", 1), p("dir-t11", 1), p("dir-t13", 1), p("dir-t15", 1)],
        _ => vec![],
    }
}

/// runs per quick check (deterministic count so that evidence is reproducible)
pub fn quick_runs(prop: &str) -> u64 {
    match prop {
        "C06" => 3200,
        "C07" => 160,
        "C12" => 24_000,
        _ => 48_000,
    }
}

/// Is this run non-trivial for the property? (measured from the run's own counters)
pub fn nontrivial(prop: &str, r: &J) -> bool {
    let e = r.get("extra").cloned().unwrap_or(J::Null);
    let c = e.get("counters").cloned().unwrap_or(J::Null);
    let ebr = e.get("ebr").cloned().unwrap_or(J::Null);
    let probes = r.get("probes").cloned().unwrap_or(J::Null);
    let faults = r.get("faults").cloned().unwrap_or(J::Null);
    let destructs = c.getu("root_destructs") + c.getu("cascade_destructs");
    match prop {
        "C01" => destructs > 0 && r.getu("switches") > 0,
        "C02" => c.getu("destruct_during_foreign_cs") > 0 && c.getu("holdings") > 0,
        "C03" => c.getu("deallocs") > 0 && (c.getu("weak_holdings") + c.getu("upgrade_some") + c.getu("upgrade_none")) > 0,
        "C04" => c.getu("deallocs") > 0 && r.getu("switches") > 0,
        "C05" => c.getu("upgrade_none") > 0 || c.getu("upgrade_after_unowned") > 0,
        "C08" | "C09" => e.get("lin").map(|l| l.getu("concurrent_pairs") > 0).unwrap_or(false),
        "C10" => probes.getu("new_many_0") + probes.getu("weak_many") + probes.getu("new_many") + probes.getu("new_many_iter") > 0,
        "C12" => c.getu("c12_checked") + c.getu("c12_window_checked") > 0 || c.getu("count_words_checked_at_quiescent_points") > 0,
        "C13" => c.getu("closures_run") > 0 && probes.getu("closure_ran_while_some_cs_active") > 0,
        "C14" => ebr.getu("pinned_across_advance") > 0,
        "C15" => c.getu("closures_run") > 0 && (faults.getu("exit_pending") > 0 || probes.getu("defer_boxed_shape") > 0),
        "C16" => probes.getu("reactivate_sole") + probes.getu("reactivate_nonsole") > 0,
        "C20" => faults.getu("tls_api") > 0,
        "C06" => e.get("fam").map(|f| f.getu("nodes") > 1 && f.getu("max_depth") > 0).unwrap_or(false),
        "C07" => e.get("fam").map(|f| f.getu("max_depth") >= 1000).unwrap_or(false),
        "C17" => e.get("fam").map(|f| f.getu("concurrent_pairs") > 0 || f.getu("queue_ops") > 26).unwrap_or(false),
        "C18" => e.get("fam").map(|f| f.getu("traversals_overlapping_updates") > 0).unwrap_or(false) || ebr.getu("registered") > 2,
        _ => r.getu("switches") > 0,
    }
}

#[derive(Default)]
pub struct Agg {
    pub runs: u64,
    pub ok: u64,
    pub steps: u64,
    pub switches: u64,
    pub epochs: u64,
    pub sites: BTreeMap<u64, u64>,
    pub faults: BTreeMap<String, u64>,
    pub probes: BTreeMap<String, u64>,
    pub counters: BTreeMap<String, u64>,
    pub by_family: BTreeMap<String, u64>,
    pub outcomes: BTreeMap<String, u64>,
    pub nontrivial: u64,
    pub hashes: HashSet<u64>,
    pub ileaves: HashSet<u64>,
    /// signature -> (count, first occurrence)
    pub found: BTreeMap<String, (u64, J)>,
    pub harness_errors: Vec<String>,
    pub samples: Vec<J>,
    pub determinism_checks: u64,
    pub max_steps: u64,
}

fn add_map(into: &mut BTreeMap<String, u64>, j: Option<&J>) {
    if let Some(J::Obj(m)) = j {
        for (k, v) in m {
            if let Some(x) = v.as_u64() {
                *into.entry(k.clone()).or_insert(0) += x;
            }
        }
    }
}

impl Agg {
    pub fn add(&mut self, prop: &str, desc: &RunDesc, r: &RunResult) {
        self.runs += 1;
        *self.by_family.entry(desc.family.clone()).or_insert(0) += 1;
        let j = &r.json;
        self.steps += j.getu("steps");
        self.max_steps = self.max_steps.max(j.getu("steps"));
        self.switches += j.getu("switches");
        self.epochs += j.getu("epochs");
        for s in j.geta("sites") {
            if let Some(a) = s.as_arr() {
                *self.sites.entry(a[0].as_u64().unwrap_or(0)).or_insert(0) += a[1].as_u64().unwrap_or(0);
            }
        }
        add_map(&mut self.faults, j.get("faults"));
        add_map(&mut self.probes, j.get("probes"));
        if let Some(e) = j.get("extra") {
            add_map(&mut self.counters, e.get("counters"));
            add_map(&mut self.counters, e.get("ebr"));
            add_map(&mut self.counters, e.get("lin"));
            add_map(&mut self.counters, e.get("fam"));
        }
        if desc.cfg.stall.is_some() {
            *self.faults.entry("stall_configured".into()).or_insert(0) += 1;
        }
        let key = match &r.res {
            Res::Ok => "ok".to_string(),
            Res::Violation => "violation".to_string(),
            Res::StepCap => "stepcap".to_string(),
            Res::HarnessError => "harness_error".to_string(),
            Res::Crash(_) => "crash".to_string(),
            Res::Timeout => "timeout".to_string(),
        };
        *self.outcomes.entry(key).or_insert(0) += 1;
        let ph = desc.program_hash();
        self.ileaves.insert(j.getu("ileave"));
        if nontrivial(prop, j) {
            self.nontrivial += 1;
            self.hashes.insert(mix(&[ph, j.getu("ileave")]));
        }
        match &r.res {
            Res::Ok => self.ok += 1,
            Res::HarnessError | Res::Timeout => {
                if self.harness_errors.len() < 5 {
                    self.harness_errors.push(format!("family {} seed {}: {:?} {}", desc.family, desc.seed, r.res, j.gets("detail")));
                }
            }
            _ => {
                // main violation / crash / stepcap
                let sig = r.signature();
                let ent = self.found.entry(sig.clone()).or_insert_with(|| (0, first_record(desc, r, &sig, r.props(), j.gets("detail"))));
                ent.0 += 1;
            }
        }
        // further soft findings of the same run
        if let Some(e) = j.get("extra") {
            for s in e.geta("soft") {
                let sig = s.gets("signature").to_string();
                if matches!(r.res, Res::Violation) && sig == r.signature() {
                    continue;
                }
                let props: Vec<String> = s.geta("props").iter().filter_map(|x| x.as_str().map(|t| t.to_string())).collect();
                let ent = self.found.entry(sig.clone()).or_insert_with(|| (0, first_record(desc, r, &sig, props, s.gets("detail"))));
                ent.0 += 1;
            }
        }
        if self.samples.len() < 2 && matches!(r.res, Res::Ok) && nontrivial(prop, j) {
            self.samples.push(sample_of(desc, r));
        }
    }

    pub fn to_json(&self) -> J {
        let m = |x: &BTreeMap<String, u64>| {
            let mut j = J::obj();
            for (k, v) in x {
                j.put(k, *v);
            }
            j
        };
        let mut sites = J::obj();
        for (k, v) in &self.sites {
            sites.put(crate::sched::site_name(*k as u32), *v);
        }
        let mut found = J::obj();
        for (k, (n, first)) in &self.found {
            found.put(k, J::obj().set("count", *n).set("first", first.clone()));
        }
        J::obj()
            .set("runs", self.runs)
            .set("ok", self.ok)
            .set("steps", self.steps)
            .set("max_steps", self.max_steps)
            .set("switches", self.switches)
            .set("epochs", self.epochs)
            .set("sites", sites)
            .set("faults", m(&self.faults))
            .set("probes", m(&self.probes))
            .set("counters", m(&self.counters))
            .set("by_family", m(&self.by_family))
            .set("outcomes", m(&self.outcomes))
            .set("nontrivial", self.nontrivial)
            .set("found", found)
            .set("harness_errors", J::Arr(self.harness_errors.iter().map(|s| J::Str(s.clone())).collect()))
            .set("samples", J::Arr(self.samples.clone()))
            .set("determinism_checks", self.determinism_checks)
    }

    pub fn merge_json(&mut self, j: &J) {
        self.runs += j.getu("runs");
        self.ok += j.getu("ok");
        self.steps += j.getu("steps");
        self.max_steps = self.max_steps.max(j.getu("max_steps"));
        self.switches += j.getu("switches");
        self.epochs += j.getu("epochs");
        self.nontrivial += j.getu("nontrivial");
        self.determinism_checks += j.getu("determinism_checks");
        if let Some(J::Obj(m)) = j.get("sites") {
            for (k, v) in m {
                // keep by name: map back through a linear search
                let id = (0..crate::sched::NSITES as u32).find(|&i| crate::sched::site_name(i) == k).unwrap_or(0);
                *self.sites.entry(id as u64).or_insert(0) += v.as_u64().unwrap_or(0);
            }
        }
        add_map(&mut self.faults, j.get("faults"));
        add_map(&mut self.probes, j.get("probes"));
        add_map(&mut self.counters, j.get("counters"));
        add_map(&mut self.by_family, j.get("by_family"));
        add_map(&mut self.outcomes, j.get("outcomes"));
        if let Some(J::Obj(m)) = j.get("found") {
            for (k, v) in m {
                let ent = self.found.entry(k.clone()).or_insert_with(|| (0, v.get("first").cloned().unwrap_or(J::Null)));
                ent.0 += v.getu("count");
                // keep the occurrence with the smallest run index so that reports are stable
                let cand = v.get("first").cloned().unwrap_or(J::Null);
                if cand.getu("index") < ent.1.getu("index") {
                    ent.1 = cand;
                }
            }
        }
        for h in j.geta("harness_errors") {
            if self.harness_errors.len() < 5 {
                self.harness_errors.push(h.as_str().unwrap_or("").to_string());
            }
        }
        for s in j.geta("samples") {
            if self.samples.len() < 3 {
                self.samples.push(s.clone());
            }
        }
    }
}

pub fn first_record(desc: &RunDesc, r: &RunResult, sig: &str, props: Vec<String>, detail: &str) -> J {
    let mut d = desc.clone();
    d.schedule = Some(r.sched.clone());
    d.buggify_script = Some(r.buggify.clone());
    J::obj()
        .set("signature", sig)
        .set("props", J::Arr(props.into_iter().map(J::Str).collect()))
        .set("detail", detail)
        .set("index", desc.params.getu("__index"))
        .set("family", desc.family.as_str())
        .set("seed", desc.seed)
        .set("desc", d.to_json())
        .set("result", r.json.clone())
}

fn sample_of(desc: &RunDesc, r: &RunResult) -> J {
    let mut threads = Vec::new();
    for t in &desc.threads {
        let ops: Vec<String> = t.ops.iter().take(40).map(|o| format!("{}({},{},{},{})", o.k.name(), o.a, o.b, o.c, o.d)).collect();
        threads.push(J::Str(ops.join(" ")));
    }
    let sched: Vec<String> = r.sched.iter().take(40).map(|(f, o, st, t)| format!("t{}@op{}+{}->t{}", *f as i32, *o as i32, st, *t as i32)).collect();
    J::obj()
        .set("family", desc.family.as_str())
        .set("seed", desc.seed)
        .set("config", desc.cfg.to_json())
        .set("params", desc.params.clone())
        .set("programs", J::Arr(threads))
        .set("schedule_prefix", sched.join(" "))
        .set("steps", r.json.getu("steps"))
        .set("switches", r.json.getu("switches"))
        .set("epochs_advanced", r.json.getu("epochs"))
}

/// Where this installation lives (the directory of `check`); /verif unless VERIF_HOME says otherwise
/// (background runs from a snapshot of /verif set it so that nothing is shared with /verif).
pub fn home() -> String {
    std::env::var("VERIF_HOME").unwrap_or_else(|_| "/verif".to_string())
}

pub fn env_u64(k: &str, d: u64) -> u64 {
    std::env::var(k).ok().and_then(|s| s.parse().ok()).unwrap_or(d)
}

pub fn run_seed(verif_seed: u64, prop: &str, family: &str, i: u64) -> u64 {
    mix(&[verif_seed, hash_str(prop), hash_str(family), i])
}

/// index -> family by the plan's weights (deterministic round robin)
pub fn family_of(plan: &[PlanEntry], i: u64) -> &'static str {
    let total: u64 = plan.iter().map(|p| p.weight as u64).sum();
    let mut r = i % total.max(1);
    for p in plan {
        if r < p.weight as u64 {
            return p.family;
        }
        r -= p.weight as u64;
    }
    plan[0].family
}

fn tmp_dir() -> String {
    let d = format!("{}/target/tmp", home());
    let _ = std::fs::create_dir_all(&d);
    d
}

/// One worker process: runs indices w, w+W, ... and writes its aggregate to a file.
fn worker(prop: &str, w: u64, nworkers: u64, max_runs: u64, deadline: Option<Instant>, verif_seed: u64, out: &str) -> ! {
    // each worker needs its own result region (the mapping is MAP_SHARED)
    crate::shm::create();
    let pl = plan(prop);
    let mut agg = Agg::default();
    let mut i = w;
    while i < max_runs {
        if let Some(d) = deadline {
            if Instant::now() >= d {
                break;
            }
        }
        let fam = family_of(&pl, i);
        let seed = run_seed(verif_seed, prop, fam, i);
        let mut desc = crate::gen::generate(prop, fam, seed);
        if let J::Obj(m) = &mut desc.params {
            m.insert("__index".into(), J::Int(i as i64));
        } else {
            desc.params = J::obj().set("__index", i);
        }
        let r = runner::fork_run(&desc);
        // determinism self-check on a sample: the same description must give the same event hash
        if (i / nworkers) % 64 == 0 && matches!(r.res, Res::Ok) {
            let r2 = runner::fork_run(&desc);
            agg.determinism_checks += 1;
            if r2.json.getu("hash") != r.json.getu("hash") || r2.json.getu("steps") != r.json.getu("steps") {
                agg.harness_errors.push(format!("nondeterminism: family {} seed {} gave hashes {} / {}", fam, seed, r.json.getu("hash"), r2.json.getu("hash")));
            }
        }
        agg.add(prop, &desc, &r);
        i += nworkers;
    }
    let mut f = std::fs::File::create(out).expect("worker output");
    f.write_all(agg.to_json().to_string().as_bytes()).unwrap();
    let mut hb = Vec::with_capacity(agg.hashes.len() * 8);
    for h in &agg.hashes {
        hb.extend_from_slice(&h.to_le_bytes());
    }
    std::fs::write(format!("{}.hashes", out), hb).unwrap();
    let mut ib = Vec::with_capacity(agg.ileaves.len() * 8);
    for h in &agg.ileaves {
        ib.extend_from_slice(&h.to_le_bytes());
    }
    std::fs::write(format!("{}.ileaves", out), ib).unwrap();
    std::process::exit(0)
}

fn read_hashes(path: &str, into: &mut HashSet<u64>) {
    if let Ok(b) = std::fs::read(path) {
        for c in b.chunks_exact(8) {
            into.insert(u64::from_le_bytes(c.try_into().unwrap()));
        }
    }
    let _ = std::fs::remove_file(path);
}

pub struct Known {
    pub property: String,
    pub signature: String,
    pub status: String,
    pub description: String,
}

pub fn load_known() -> Vec<Known> {
    let txt = std::fs::read_to_string(format!("{}/known_findings.json", home())).unwrap_or_else(|_| "[]".into());
    let j = J::parse(&txt).unwrap_or(J::Arr(vec![]));
    j.as_arr()
        .map(|a| {
            a.iter()
                .map(|e| Known { property: e.gets("property").to_string(), signature: e.gets("signature").to_string(), status: e.gets("status").to_string(), description: e.gets("description").to_string() })
                .collect()
        })
        .unwrap_or_default()
}

pub fn technique(prop: &str) -> &'static str {
    match prop {
        "C06" | "C07" => "deterministic simulation: seeded sweep over structure sizes/shapes, epoch alignments and stack sizes in crash-contained child processes",
        "C08" | "C09" => "deterministic simulation: seeded schedule search + linearizability check of recorded histories against a sequential cell model",
        "C17" => "deterministic simulation: seeded schedule search + linearizability check against a sequential FIFO model",
        "C12" => "deterministic simulation: directed sweep of stamp ages over the simulated epoch clock + shadow-model oracle at the real decision site",
        _ => "deterministic simulation: seeded search over programs, schedules and injected faults with a shadow ownership model",
    }
}

pub fn main_check(prop: &str, tier: &str) -> i32 {
    let t0 = Instant::now();
    let pl = plan(prop);
    if pl.is_empty() {
        eprintln!("no check for {}", prop);
        return 2;
    }
    let verif_seed = env_u64("VERIF_SEED", 1);
    let jobs = env_u64("VERIF_JOBS", 16).max(1);
    let quick = tier != "thorough";
    crate::gen::DEEP.store(!quick, std::sync::atomic::Ordering::SeqCst);
    let max_runs = if quick { env_u64("VERIF_RUNS", quick_runs(prop)) } else { env_u64("VERIF_RUNS", u64::MAX) };
    let budget = env_u64("VERIF_BUDGET_S", if quick { 600 } else { 900 });
    let deadline = Some(t0 + std::time::Duration::from_secs(budget));
    let dir = tmp_dir();
    let me = std::process::id();
    let mut outs = Vec::new();
    let mut pids = Vec::new();
    for w in 0..jobs {
        let out = format!("{}/check-{}-{}-w{}.json", dir, prop, me, w);
        let pid = unsafe { libc::fork() };
        assert!(pid >= 0);
        if pid == 0 {
            worker(prop, w, jobs, max_runs, deadline, verif_seed, &out);
        }
        outs.push(out);
        pids.push(pid);
    }
    let mut agg = Agg::default();
    let mut worker_failed = false;
    for (pid, out) in pids.iter().zip(outs.iter()) {
        let mut st = 0;
        unsafe {
            libc::waitpid(*pid, &mut st, 0);
        }
        match std::fs::read_to_string(out).ok().and_then(|t| J::parse(&t).ok()) {
            Some(j) => agg.merge_json(&j),
            None => worker_failed = true,
        }
        let _ = std::fs::remove_file(out);
        read_hashes(&format!("{}.hashes", out), &mut agg.hashes);
        read_hashes(&format!("{}.ileaves", out), &mut agg.ileaves);
    }
    if worker_failed {
        agg.harness_errors.push("a worker process died without writing its aggregate".into());
    }
    // classify what was found
    let known = load_known();
    let mut violations = 0;
    let mut known_seen = Vec::new();
    let mut foreign = Vec::new();
    let mut new_violations = Vec::new();
    let _ = std::fs::create_dir_all(format!("{}/replays", home()));
    for (sig, (count, first)) in &agg.found {
        let props: Vec<String> = first.geta("props").iter().filter_map(|x| x.as_str().map(|s| s.to_string())).collect();
        let mine = props.iter().any(|p| p == prop) || props.is_empty();
        if let Some(k) = known.iter().find(|k| &k.signature == sig && k.status == "open") {
            if mine {
                println!("KNOWN-FINDING: property={} {} [{}; seen in {} run(s)]", prop, k.description, sig, count);
            }
            known_seen.push(J::obj().set("signature", sig.as_str()).set("count", *count).set("reported_for_this_property", mine));
            continue;
        }
        if !mine {
            let kept = crate::minimize::keep_foreign(prop, sig, first);
            eprintln!("note: {} run(s) showed {} (a finding for another property, not counted against {}): {}", count, sig, prop, kept);
            foreign.push(J::obj().set("signature", sig.as_str()).set("count", *count).set("detail", first.gets("detail")).set("replay", kept.as_str()));
            continue;
        }
        violations += 1;
        new_violations.push((sig.clone(), *count, first.clone()));
    }
    let mut replay_paths = Vec::new();
    let _ = std::fs::create_dir_all(format!("{}/replays", home()));
    for (sig, count, first) in &new_violations {
        let path = crate::minimize::report(prop, sig, first);
        println!("VIOLATION property={} replay={}", prop, path);
        println!("  signature: {} ({} run(s))", sig, count);
        println!("  detail: {}", first.gets("detail"));
        replay_paths.push(path);
    }
    let wall = t0.elapsed().as_secs_f64();
    write_evidence(prop, tier, verif_seed, &agg, wall, violations, &known_seen, &foreign, &replay_paths, jobs);
    println!(
        "check {} {}: {} runs ({} ok), {} steps, {} epochs advanced, {} distinct interleavings, {} distinct non-trivial cases, {:.1}s, {:.0} runs/h",
        prop, tier, agg.runs, agg.ok, agg.steps, agg.epochs, agg.ileaves.len(), agg.hashes.len(), wall, agg.runs as f64 / wall * 3600.0
    );
    if !agg.harness_errors.is_empty() {
        for e in &agg.harness_errors {
            eprintln!("HARNESS-ERROR: {}", e);
        }
        if violations == 0 {
            return 2;
        }
    }
    if violations > 0 {
        1
    } else {
        0
    }
}

#[allow(clippy::too_many_arguments)]
fn write_evidence(prop: &str, tier: &str, seed: u64, agg: &Agg, wall: f64, violations: u64, known_seen: &[J], foreign: &[J], replays: &[String], jobs: u64) {
    let aj = agg.to_json();
    let rule = format!(
        "cases = (program, schedule, fault set) triples generated from run_seed = mix(VERIF_SEED, property, family, index); families by plan weights {:?}; a case is non-trivial for {} by the predicate in check.rs::nontrivial (measured per run from the simulator's own counters) and distinct by hash(program) x hash(sequence of (thread, site, next thread) at context switches)",
        plan(prop).iter().map(|p| format!("{}:{}", p.family, p.weight)).collect::<Vec<_>>(),
        prop
    );
    let mut cov = J::obj()
        .set("evaluations", agg.runs)
        .set("distinct_nontrivial", agg.hashes.len())
        .set("rule", rule)
        .set("samples", J::Arr(agg.samples.clone()))
        .set("nontrivial_runs", agg.nontrivial)
        .set("distinct_interleavings", agg.ileaves.len())
        .set("simulator_steps", agg.steps)
        .set("max_steps_in_one_run", agg.max_steps)
        .set("context_switches", agg.switches)
        .set("simulated_time_epoch_advances", agg.epochs)
        .set("runs_per_hour", (agg.runs as f64 / wall.max(0.001) * 3600.0) as u64)
        .set("worker_processes", jobs)
        .set("runs_by_family", aj.get("by_family").cloned().unwrap_or(J::Null))
        .set("outcomes", aj.get("outcomes").cloned().unwrap_or(J::Null))
        .set("faults_fired", aj.get("faults").cloned().unwrap_or(J::Null))
        .set("probes_hit", aj.get("probes").cloned().unwrap_or(J::Null))
        .set("yield_point_hits", aj.get("sites").cloned().unwrap_or(J::Null))
        .set("oracle_counters", aj.get("counters").cloned().unwrap_or(J::Null))
        .set("determinism_rechecks", agg.determinism_checks)
        .set("known_findings_seen", J::Arr(known_seen.to_vec()))
        .set("other_property_findings", J::Arr(foreign.to_vec()))
        .set("replay_files", J::Arr(replays.iter().map(|s| J::Str(s.clone())).collect()))
        .set(
            "components",
            J::obj()
                .set("real", "all of circ (atomics, allocator behind a quarantining wrapper, std threads, thread-locals, stacks)")
                .set("stub", "the OS scheduler's choice of which thread runs next (baton); payload/client code is the harness's"),
        );
    if agg.samples.is_empty() {
        cov.put("samples", J::Arr(vec![J::Str("no non-trivial ok run to sample".into())]));
    }
    let ev = J::obj()
        .set("property_id", prop)
        .set("tier", if tier == "thorough" { "thorough" } else { "quick" })
        .set("seed", J::Int((seed & 0x7FFF_FFFF_FFFF_FFFF) as i64))
        .set("level", "exploration")
        .set("coverage", cov)
        .set(
            "assumptions",
            J::Arr(
                [
                    "sequentially consistent interleavings only (one thread runs at a time); memory-ordering weakenings are invisible",
                    "x86-64: weak CAS fails only where the harness injects it",
                    "preemption only at hooked atomic accesses and op boundaries",
                    "sampling, not enumeration: a clean batch is evidence, not proof",
                ]
                .iter()
                .map(|s| J::Str(s.to_string()))
                .collect(),
            ),
        )
        .set("wall_s", wall)
        .set("violations", violations);
    let _ = std::fs::create_dir_all(format!("{}/evidence", home()));
    std::fs::write(format!("{}/evidence/{}.json", home(), prop), ev.pretty()).expect("write evidence");
}
