//! Directed scenario templates (RC-DIRECTED): a fixed skeleton for a choreography that a
//! uniform generator reaches too rarely, with randomised parameters, noise ops and schedule.
//! Object rank classes (third argument of `New`) keep template edges legal and acyclic.

use circ::verif::site;

use crate::gen::{gen_ops, swarm_cfg, ticker_ops, Profile};
use crate::json::J;
use crate::ops::*;
use crate::rng::Rng;

fn o(k: K, a: u32, b: u32, c: u32, d: u32) -> Op {
    op(k, a, b, c, d)
}
const ROOT0: u32 = 0;
const ROOT1: u32 = 10;
const WROOT0: u32 = 0;
fn rc_field(slot: u32, f: u32) -> u32 {
    100 + slot * 10 + f
}
fn snap_field(slot: u32, f: u32) -> u32 {
    200 + slot * 10 + f
}

fn rounds(n: usize) -> Vec<Op> {
    ticker_ops(n)
}

fn thread(phase: u32, name: &str, ops: Vec<Op>) -> ThreadProg {
    let mut t = ThreadProg::new(phase, ops);
    t.name = name.to_string();
    t
}

fn noise(rng: &mut Rng, phase: u32, cfg: &RunCfg) -> ThreadProg {
    let n = 3 + rng.below(12) as usize;
    let mut ops = gen_ops(rng, Profile::Mixed, n, cfg.roots, cfg.wroots);
    // noise stays off the template's cells ROOT[0], ROOT[1], WROOT[0]
    for op in ops.iter_mut() {
        match op.k {
            K::Load | K::Store | K::Swap | K::Cas | K::CasTag if op.a < 100 => op.a = 20,
            K::LoadW | K::StoreW | K::SwapW | K::CasW | K::CasTagW if op.a < 100 => op.a = 10,
            _ => {}
        }
    }
    thread(phase, "noise", ops)
}

fn base(rng: &mut Rng, prop: &str, family: &str, seed: u64, nthreads: usize) -> RunDesc {
    let mut cfg = RunCfg::default();
    swarm_cfg(rng, &mut cfg, nthreads, false);
    cfg.roots = 3;
    cfg.wroots = 2;
    cfg.pop_policy = 0;
    // small bags so that deferred destructs actually travel through the global queue
    cfg.max_objects = *rng.pick(&[2u32, 3, 4, 8]);
    cfg.manual_interval = *rng.pick(&[1u32, 2, 3, 5, 8, 64]);
    RunDesc { prop: prop.into(), family: family.into(), seed, cfg, threads: Vec::new(), params: J::Null, schedule: None, buggify_script: None }
}

/// setup: P (class 1) -> X (class 2); ROOT[1] = P; optionally ROOT[0] = X, WROOT[0] = weak X
fn setup_parent_child(x_in_root0: bool, weak_in_wroot0: bool) -> Vec<Op> {
    setup_parent_child_ext(x_in_root0, weak_in_wroot0, false)
}

/// `prestamp`: X gets a real (and soon old) stamp in its count word: an extra owner is dropped now
fn setup_parent_child_ext(x_in_root0: bool, weak_in_wroot0: bool, prestamp: bool) -> Vec<Op> {
    let mut v = vec![o(K::New, 0, NONE_SLOT, 1, 0), o(K::New, 1, NONE_SLOT, 2, 0), o(K::Pin, 0, 0, 0, 0)];
    if prestamp {
        v.extend([o(K::Clone, 1, 3, 0, 0), o(K::DropRc, 3, 0, 0, 0)]);
    }
    if weak_in_wroot0 {
        v.push(o(K::Downgrade, 1, 0, 0, 0));
        v.push(o(K::StoreW, WROOT0, 0, 0, 0));
    }
    if x_in_root0 {
        v.push(o(K::Clone, 1, 2, 0, 0));
        v.push(o(K::Store, ROOT0, 2, 0, 0));
    }
    v.push(o(K::Store, rc_field(0, 0), 1, 0, 0)); // P.next[0] <- X
    v.push(o(K::Store, ROOT1, 0, 0, 0)); // ROOT[1] <- P
    v.push(o(K::Unpin, 0, 0, 0, 0));
    v
}

/// T1: an unpinned dropper is stalled inside `drop` (after it read the epoch) while the object
/// it releases is loaded by a reader, unlinked, and its parent is retired early enough to
/// cascade.
pub fn t1(prop: &str, seed: u64) -> RunDesc {
    let mut rng = Rng::new(seed);
    let mut d = base(&mut rng, prop, "dir-t1", seed, 6);
    d.threads.push(thread(0, "setup", setup_parent_child(true, false)));
    // dropper: obtains its own counted reference, then drops it unpinned
    let dropper = vec![o(K::Pin, 0, 0, 0, 0), o(K::Load, ROOT0, 0, 0, 0), o(K::Counted, 0, 0, 0, 0), o(K::Unpin, 0, 0, 0, 0), o(K::Signal, 1, 0, 0, 0), o(K::DropRc, 0, 0, 0, 0)];
    d.threads.push(thread(1, "dropper", dropper));
    // w1 retires the parent
    d.threads.push(thread(1, "retire-parent", vec![o(K::Await, 1, 0, 0, 0), o(K::Pin, 0, 0, 0, 0), o(K::Store, ROOT1, NONE_SLOT, 0, 0), o(K::Flush, 0, 0, 0, 0), o(K::Unpin, 0, 0, 0, 0), o(K::Signal, 2, 0, 0, 0)]));
    // ticker: m rounds, lets the reader in, more rounds
    let m = 1 + rng.below(5) as usize;
    let m2 = 2 + rng.below(6) as usize;
    let mut t = vec![o(K::Await, 2, 0, 0, 0)];
    t.extend(rounds(m));
    t.push(o(K::Signal, 3, 0, 0, 0));
    t.push(o(K::Await, 4, 0, 0, 0));
    t.extend(rounds(m2));
    t.push(o(K::Signal, 5, 0, 0, 0));
    d.threads.push(thread(1, "ticker", t));
    // reader: loads X from the root cell inside its critical section and keeps using it
    let mut r = vec![o(K::Await, 3, 0, 0, 0), o(K::Pin, 0, 0, 0, 0), o(K::Load, ROOT0, 0, 0, 0), o(K::DerefSnap, 0, 0, 0, 0), o(K::Signal, 6, 0, 0, 0), o(K::Await, 5, 0, 0, 0), o(K::DerefSnap, 0, 0, 0, 0), o(K::Unpin, 0, 0, 0, 0)];
    if rng.chance(0.3) {
        r.insert(4, o(K::Load, snap_field(0, 0), 0, 1, 0));
    }
    d.threads.push(thread(1, "reader", r));
    // w2 unlinks X after the reader has it; then releases the dropper
    d.threads.push(thread(1, "unlink", vec![o(K::Await, 6, 0, 0, 0), o(K::Pin, 0, 0, 0, 0), o(K::Store, ROOT0, NONE_SLOT, 0, 0), o(K::Unpin, 0, 0, 0, 0), o(K::Signal, 4, 0, 0, 0)]));
    if rng.chance(0.5) {
        let n = noise(&mut rng, 1, &d.cfg);
        d.threads.push(n);
    }
    // the fault: freeze the dropper inside decrement_strong, after its epoch read
    let variant = rng.below(10);
    d.cfg.stall = match variant {
        0 => None, // control: no stall
        1 | 2 => Some(StallCfg { victim: 1, site: site::DEC_STRONG_LOAD, nth: 1, k: *rng.pick(&[1u64, 2, 3, 4, 5, 8]), release_signal: 0 }),
        3 => Some(StallCfg { victim: 1, site: site::DEC_STRONG_CAS, nth: 1, k: 0, release_signal: 4 }),
        _ => Some(StallCfg { victim: 1, site: site::DEC_STRONG_LOAD, nth: 1, k: 0, release_signal: 4 }),
    };
    d.params = J::obj().set("template", "T1 stalled dropper").set("ticker_rounds_before_reader", m).set("ticker_rounds_after_unlink", m2).set("variant", variant);
    d
}

/// T2: a reader is pinned exactly while a cascade runs; its snapshot of the child comes from
/// one of the sources named in C02.
pub fn t2(prop: &str, seed: u64) -> RunDesc {
    let mut rng = Rng::new(seed);
    let mut d = base(&mut rng, prop, "dir-t2", seed, 5);
    let source = rng.below(5);
    let prestamp = rng.chance(0.4);
    d.threads.push(thread(0, "setup", setup_parent_child_ext(source == 3, true, prestamp)));
    // optional ageing of the link before the parent is retired
    let age = rng.below(6) as usize;
    d.threads.push(thread(1, "age", rounds(age)));
    let m = 1 + rng.below(5) as usize;
    let m2 = 2 + rng.below(5) as usize;
    let mut reader = vec![o(K::Await, 3, 0, 0, 0), o(K::Pin, 0, 0, 0, 0)];
    match source {
        0 => {
            // WeakSnapshot::upgrade on a weak pointer loaded from a cell
            reader.push(o(K::LoadW, WROOT0, 0, 0, 0));
            reader.push(o(K::WsUpgrade, 0, 0, 0, 0));
        }
        1 => {
            // AtomicRc::load through the parent (only possible while the parent is linked)
            reader.push(o(K::Load, ROOT1, 0, 1, 0));
            reader.push(o(K::Load, snap_field(1, 0), 0, 0, 0));
        }
        2 => {
            // `current` of a failed compare_exchange on the parent's link
            reader.push(o(K::Load, ROOT1, 0, 1, 0));
            reader.push(o(K::New, 0, NONE_SLOT, 3, 0));
            // expected = empty snapshot slot 0 (null) -> the CAS fails and `current` (= X) lands in slot 0
            reader.push(o(K::Cas, snap_field(1, 0), 0, 0, 0));
        }
        3 => {
            // Rc::snapshot of a counted reference obtained from the root cell, dropped afterwards
            reader.push(o(K::Load, ROOT0, 0, 1, 0));
            reader.push(o(K::Counted, 1, 0, 0, 0));
            reader.push(o(K::SnapOf, 0, 0, 0, 0));
            reader.push(o(K::DropRc, 0, 0, 0, 0));
        }
        _ => {
            // Weak::snapshot + upgrade of a thread-local Weak
            reader.push(o(K::LoadW, WROOT0, 0, 1, 0));
            reader.push(o(K::WsCounted, 1, 0, 0, 0));
            reader.push(o(K::WSnapOf, 0, 0, 0, 0));
            reader.push(o(K::WsUpgrade, 0, 0, 0, 0));
        }
    }
    reader.extend([o(K::DerefSnap, 0, 0, 0, 0), o(K::Signal, 6, 0, 0, 0)]);
    // the pinned reader itself tries to advance the clock (what every 64th deferral does): its own
    // announcement has to hold it back like anybody else's
    let self_advance = rng.chance(0.3);
    if self_advance {
        for _ in 0..3 + rng.below(4) {
            reader.push(o(K::TryAdvance, 0, 0, 0, 0));
        }
    }
    reader.extend([o(K::Await, 5, 0, 0, 0), o(K::DerefSnap, 0, 0, 0, 0), o(K::Unpin, 0, 0, 0, 0)]);
    let reader_first = source == 1 || source == 2 || rng.chance(0.3);
    // retire the parent (and unlink X from ROOT[0] where it was put there)
    let mut retire = vec![];
    if reader_first {
        retire.push(o(K::Await, 6, 0, 0, 0));
    }
    retire.extend([o(K::Pin, 0, 0, 0, 0), o(K::Store, ROOT1, NONE_SLOT, 0, 0)]);
    if source == 3 {
        retire.push(o(K::Store, ROOT0, NONE_SLOT, 0, 0));
    }
    retire.extend([o(K::Flush, 0, 0, 0, 0), o(K::Unpin, 0, 0, 0, 0), o(K::Signal, 2, 0, 0, 0)]);
    d.threads.push(thread(2, "retire-parent", retire));
    let mut t = vec![];
    if reader_first {
        t.push(o(K::Signal, 3, 0, 0, 0));
    }
    t.push(o(K::Await, 2, 0, 0, 0));
    t.extend(rounds(m));
    t.push(o(K::Signal, 3, 0, 0, 0));
    if !reader_first {
        t.push(o(K::Await, 6, 0, 0, 0));
    }
    t.extend(rounds(m2));
    t.push(o(K::Signal, 5, 0, 0, 0));
    d.threads.push(thread(2, "ticker", t));
    d.threads.push(thread(2, "reader", reader));
    if rng.chance(0.4) {
        let n = noise(&mut rng, 2, &d.cfg);
        d.threads.push(n);
    }
    d.params = J::obj().set("template", "T2 reader pinned across a cascade").set("child_prestamped", prestamp).set("snapshot_source", source).set("link_age_rounds", age).set("rounds_before_reader", m).set("rounds_after", m2).set("reader_first", reader_first).set("reader_tries_to_advance", self_advance);
    d
}

/// T3: upgrades racing the last strong drop, a root destruct and a cascade.
pub fn t3(prop: &str, seed: u64) -> RunDesc {
    let mut rng = Rng::new(seed);
    let mut d = base(&mut rng, prop, "dir-t3", seed, 5);
    let child_in_parent = rng.chance(0.6);
    let two_owners = !child_in_parent && rng.chance(0.6);
    if child_in_parent {
        d.threads.push(thread(0, "setup", setup_parent_child(false, true)));
    } else if two_owners {
        // X in ROOT[1] and ROOT[0]: the last two owners are released by two threads at once
        d.threads.push(thread(0, "setup", vec![o(K::New, 1, NONE_SLOT, 2, 0), o(K::Pin, 0, 0, 0, 0), o(K::Downgrade, 1, 0, 0, 0), o(K::StoreW, WROOT0, 0, 0, 0), o(K::Clone, 1, 2, 0, 0), o(K::Store, ROOT0, 2, 0, 0), o(K::Store, ROOT1, 1, 0, 0), o(K::Unpin, 0, 0, 0, 0)]));
    } else {
        // X alone in ROOT[1]: a root destruct
        d.threads.push(thread(0, "setup", vec![o(K::New, 1, NONE_SLOT, 2, 0), o(K::Pin, 0, 0, 0, 0), o(K::Downgrade, 1, 0, 0, 0), o(K::StoreW, WROOT0, 0, 0, 0), o(K::Store, ROOT1, 1, 0, 0), o(K::Unpin, 0, 0, 0, 0)]));
    }
    let age = rng.below(8) as usize;
    d.threads.push(thread(1, "age", rounds(age)));
    // upgraders: take a Weak, then upgrade at several moments
    let nup = 1 + rng.below(2) as usize;
    for u in 0..nup {
        let mut v = vec![o(K::Pin, 0, 0, 0, 0), o(K::LoadW, WROOT0, 0, 0, 0), o(K::WsCounted, 0, 0, 0, 0), o(K::Unpin, 0, 0, 0, 0), o(K::Signal, 1 + u as u32, 0, 0, 0)];
        let k = 2 + rng.below(4) as usize;
        let mut held_once = false;
        let mut held_rc_once = false;
        for i in 0..k {
            if rng.chance(0.5) {
                v.push(o(K::Upgrade, 0, 1, 0, 0));
                if rng.chance(0.5) {
                    v.push(o(K::DerefRc, 1, 0, 0, 0));
                }
                if !held_rc_once && rng.chance(0.5) {
                    // keep the upgraded owner across the other threads' collection rounds
                    held_rc_once = true;
                    v.push(o(K::Await, 5, 0, 0, 0));
                    v.extend(rounds(2));
                    v.push(o(K::DerefRc, 1, 0, 0, 0));
                }
                v.push(o(K::DropRc, 1, 0, 0, 0));
            } else {
                v.extend([o(K::Pin, 1, 0, 0, 0), o(K::WSnapOf, 0, 1, 1, 0), o(K::WsUpgrade, 1, 1, 0, 0), o(K::DerefSnap, 1, 0, 0, 0)]);
                if rng.chance(0.3) {
                    v.push(o(K::Counted, 1, 2, 0, 0));
                    v.push(o(K::DropRc, 2, 0, 0, 0));
                }
                if !held_once && rng.chance(0.5) {
                    // keep the upgraded Snapshot across the other threads' collection rounds
                    held_once = true;
                    v.push(o(K::Await, 5, 0, 0, 0));
                    v.push(o(K::DerefSnap, 1, 0, 0, 0));
                }
                v.push(o(K::Unpin, 1, 0, 0, 0));
            }
            if i == 0 || rng.chance(0.5) {
                v.extend(rounds(rng.below(3) as usize));
            }
            if i + 2 == k {
                v.push(o(K::Await, 5, 0, 0, 0));
            }
        }
        d.threads.push(thread(2, "upgrader", v));
    }
    // one more upgrader acts while X's pop_edges is running (the monitor raises signal 9 then):
    // by that time X is marked destructed, whatever path destructs it
    let in_destructor = rng.chance(0.35);
    if in_destructor {
        d.cfg.signal_pop_class = 2;
        let mut v = vec![o(K::Pin, 0, 0, 0, 0), o(K::LoadW, WROOT0, 0, 0, 0), o(K::WsCounted, 0, 0, 0, 0), o(K::Unpin, 0, 0, 0, 0), o(K::Await, 9, 0, 0, 0)];
        if rng.chance(0.5) {
            v.extend([o(K::Upgrade, 0, 1, 0, 0), o(K::DerefRc, 1, 0, 0, 0), o(K::DropRc, 1, 0, 0, 0)]);
        } else {
            v.extend([o(K::Pin, 1, 0, 0, 0), o(K::WSnapOf, 0, 1, 1, 0), o(K::WsUpgrade, 1, 1, 0, 0), o(K::DerefSnap, 1, 0, 0, 0), o(K::Unpin, 1, 0, 0, 0)]);
        }
        d.threads.push(thread(2, "upgrader-in-destructor", v));
    }
    // a thread that only clones and drops Weak pointers to X: the weak count lives in the same
    // word as the strong count and the flags, so it makes compare-exchanges on that word fail
    // without touching what they are about
    let weak_hammer = rng.chance(0.3);
    if weak_hammer {
        // (where possible it starts when the parent's pop_edges starts, i.e. just before the
        // cascade turns to X)
        let at_parent = child_in_parent && !in_destructor;
        if at_parent {
            d.cfg.signal_pop_class = 1;
        }
        let mut v = vec![o(K::Pin, 0, 0, 0, 0), o(K::LoadW, WROOT0, 0, 0, 0), o(K::WsCounted, 0, 0, 0, 0), o(K::Unpin, 0, 0, 0, 0), o(K::Await, if at_parent { 9 } else { 1 }, 0, 0, 0)];
        for _ in 0..8 + rng.below(16) {
            v.extend([o(K::CloneW, 0, 1, 0, 0), o(K::DropW, 1, 0, 0, 0)]);
        }
        v.push(o(K::DropW, 0, 0, 0, 0));
        d.threads.push(thread(2, "weak-hammer", v));
    }
    if two_owners {
        d.threads.push(thread(2, "retire-other-owner", vec![o(K::Await, 1, 0, 0, 0), o(K::Pin, 0, 0, 0, 0), o(K::Store, ROOT0, NONE_SLOT, 0, 0), o(K::Unpin, 0, 0, 0, 0)]));
    }
    let mut retire = vec![o(K::Await, 1, 0, 0, 0), o(K::Pin, 0, 0, 0, 0), o(K::Store, ROOT1, NONE_SLOT, 0, 0), o(K::Flush, 0, 0, 0, 0), o(K::Unpin, 0, 0, 0, 0)];
    retire.extend(rounds(3 + rng.below(5) as usize));
    retire.push(o(K::Signal, 5, 0, 0, 0));
    d.threads.push(thread(2, "retire", retire));
    if rng.chance(0.4) {
        let n = noise(&mut rng, 2, &d.cfg);
        d.threads.push(n);
    }
    // fault: the first upgrader is frozen right before the compare-exchange of its first
    // WeakSnapshot::upgrade (it has read the count word) until the retiring thread has finished its
    // collection rounds: the word it read is gone by then, whatever was done to the object
    let frozen_upgrade = Rng::new(seed ^ 0x3C).chance(0.25);
    if frozen_upgrade {
        d.cfg.stall = Some(StallCfg { victim: 2, site: site::NOT_DESTRUCTED_CAS, nth: 1, k: 0, release_signal: 5 });
    }
    // fault: the thread that runs the cascade is frozen right before the compare-exchange that
    // marks the child destructed (it has read a count of zero); an upgrader that waited for the
    // parent's pop_edges then upgrades and keeps its Snapshot, and only then is the cascade let go
    let frozen_cascade = !frozen_upgrade && child_in_parent && !in_destructor && !weak_hammer && Rng::new(seed ^ 0x3D).chance(0.35);
    if frozen_cascade {
        d.cfg.signal_pop_class = 1;
        let retire_idx = d.threads.iter().position(|t| t.name == "retire").unwrap() as u32;
        d.cfg.stall = Some(StallCfg { victim: retire_idx, site: site::TRY_DESTRUCT_CAS, nth: 2, k: 0, release_signal: 7 });
        let v = vec![
            o(K::Pin, 0, 0, 0, 0),
            o(K::LoadW, WROOT0, 0, 0, 0),
            o(K::WsCounted, 0, 0, 0, 0),
            o(K::Unpin, 0, 0, 0, 0),
            o(K::Await, 9, 0, 0, 0),
            o(K::Pin, 1, 0, 0, 0),
            o(K::WSnapOf, 0, 1, 1, 0),
            o(K::WsUpgrade, 1, 1, 0, 0),
            o(K::DerefSnap, 1, 0, 0, 0),
            o(K::Signal, 7, 0, 0, 0),
            o(K::Await, 5, 0, 0, 0),
            o(K::DerefSnap, 1, 0, 0, 0),
            o(K::Unpin, 1, 0, 0, 0),
            o(K::DropW, 0, 0, 0, 0),
        ];
        d.threads.push(thread(2, "upgrader-while-cascade-frozen", v));
    }
    d.params = J::obj().set("upgrader_frozen_before_its_cas", frozen_upgrade).set("cascade_frozen_before_marking_the_child", frozen_cascade).set("template", "T3 upgrade racing destruction").set("child_in_parent", child_in_parent).set("link_age_rounds", age).set("upgrader_acts_during_pop_edges", in_destructor).set("two_owners_released_at_once", two_owners).set("weak_hammer", weak_hammer);
    d
}

/// T4: increments from zero inside the reader's critical section racing the pending
/// try_destruct / try_dealloc.
pub fn t4(prop: &str, seed: u64) -> RunDesc {
    let mut rng = Rng::new(seed);
    let mut d = base(&mut rng, prop, "dir-t4", seed, 4);
    d.threads.push(thread(0, "setup", vec![o(K::New, 1, NONE_SLOT, 2, 0), o(K::Pin, 0, 0, 0, 0), o(K::Downgrade, 1, 0, 0, 0), o(K::StoreW, WROOT0, 0, 0, 0), o(K::Store, ROOT0, 1, 0, 0), o(K::Unpin, 0, 0, 0, 0)]));
    let nreaders = 1 + rng.below(2) as usize;
    for r in 0..nreaders {
        let mut v = vec![o(K::Pin, 0, 0, 0, 0), o(K::Load, ROOT0, 0, 0, 0), o(K::LoadW, WROOT0, 0, 0, 0), o(K::Signal, 1 + r as u32, 0, 0, 0), o(K::Await, 4, 0, 0, 0)];
        let k = 1 + rng.below(3) as usize;
        for _ in 0..k {
            match rng.below(4) {
                0 => v.extend([o(K::Counted, 0, 0, 0, 0), o(K::DerefRc, 0, 0, 0, 0), o(K::DropRc, 0, 0, 0, 0)]),
                1 => v.extend([o(K::Counted, 0, 0, 0, 0), o(K::Clone, 0, 1, 0, 0), o(K::DropRc, 0, 0, 0, 0), o(K::DropRc, 1, 0, 0, 0)]),
                2 => v.extend([o(K::WsCounted, 0, 0, 0, 0), o(K::DropW, 0, 0, 0, 0)]),
                _ => v.extend([o(K::WsCounted, 0, 0, 0, 0), o(K::Upgrade, 0, 2, 0, 0), o(K::DropW, 0, 0, 0, 0), o(K::DropRc, 2, 0, 0, 0)]),
            }
        }
        if rng.chance(0.5) {
            v.insert(5, o(K::Counted, 0, 3, 0, 0));
            v.push(o(K::Unpin, 0, 0, 0, 0));
            v.extend(rounds(rng.below(4) as usize));
            v.push(o(K::DerefRc, 3, 0, 0, 0));
            v.push(o(K::DropRc, 3, 0, 0, 0));
        } else {
            v.push(o(K::DerefSnap, 0, 0, 0, 0));
            v.push(o(K::Unpin, 0, 0, 0, 0));
        }
        d.threads.push(thread(1, "reader", v));
    }
    // the writer drops the last owners (strong, then weak) once the readers hold their snapshots
    let mut w = vec![o(K::Await, 1, 0, 0, 0), o(K::Pin, 0, 0, 0, 0), o(K::Store, ROOT0, NONE_SLOT, 0, 0)];
    if rng.chance(0.7) {
        w.push(o(K::StoreW, WROOT0, NONE_SLOT, 0, 0));
    }
    w.extend([o(K::Flush, 0, 0, 0, 0), o(K::Unpin, 0, 0, 0, 0), o(K::Signal, 4, 0, 0, 0)]);
    w.extend(rounds(2 + rng.below(5) as usize));
    d.threads.push(thread(1, "writer", w));
    d.threads.push(thread(1, "ticker", rounds(3 + rng.below(6) as usize)));
    d.params = J::obj().set("template", "T4 increment from zero").set("readers", nreaders);
    d
}

/// T7: weak increments from zero — the object is already destructed and only weak owners keep
/// its block; the last of them is released inside a reader's critical section, after which
/// the reader re-counts from its WeakSnapshot (racing the pending try_dealloc).
pub fn t7(prop: &str, seed: u64) -> RunDesc {
    let mut rng = Rng::new(seed);
    let mut d = base(&mut rng, prop, "dir-t7", seed, 4);
    let strong_alive = rng.chance(0.25);
    let mut setup = vec![o(K::New, 1, NONE_SLOT, 2, 0), o(K::Pin, 0, 0, 0, 0), o(K::Downgrade, 1, 0, 0, 0), o(K::StoreW, WROOT0, 0, 0, 0)];
    if rng.chance(0.5) {
        setup.extend([o(K::Downgrade, 1, 1, 0, 0), o(K::StoreW, 10, 1, 0, 0)]);
    }
    if strong_alive {
        setup.push(o(K::Store, ROOT0, 1, 0, 0));
    }
    setup.push(o(K::Unpin, 0, 0, 0, 0));
    d.threads.push(thread(0, "setup", setup));
    // let the object be destructed (unless kept alive) while the weak owners keep the block;
    // or (pending variant) retire it only k rounds before the readers pin, so that its
    // destruction runs *inside* their critical sections
    let pending = strong_alive && rng.chance(0.7);
    if pending {
        let mut pre = rounds(rng.below(3) as usize);
        pre.extend([o(K::Pin, 0, 0, 0, 0), o(K::Store, ROOT0, NONE_SLOT, 0, 0), o(K::Flush, 0, 0, 0, 0), o(K::Unpin, 0, 0, 0, 0)]);
        pre.extend(rounds(rng.below(4) as usize));
        d.threads.push(thread(1, "pre-retire", pre));
    } else {
        d.threads.push(thread(1, "age", rounds(3 + rng.below(6) as usize)));
    }
    let nreaders = 1 + rng.below(2) as usize;
    for r in 0..nreaders {
        let mut v = vec![o(K::Pin, 0, 0, 0, 0), o(K::LoadW, if rng.chance(0.8) { WROOT0 } else { 10 }, 0, 0, 0), o(K::Signal, 1 + r as u32, 0, 0, 0), o(K::Await, 4, 0, 0, 0)];
        for _ in 0..1 + rng.below(3) {
            match rng.below(5) {
                0 => v.extend([o(K::WsCounted, 0, 0, 0, 0), o(K::DropW, 0, 0, 0, 0)]),
                1 => v.extend([o(K::WsCounted, 0, 0, 0, 0), o(K::CloneW, 0, 1, 0, 0), o(K::DropW, 0, 0, 0, 0), o(K::DropW, 1, 0, 0, 0)]),
                2 => v.extend([o(K::WsCounted, 0, 0, 0, 0), o(K::Upgrade, 0, 2, 0, 0), o(K::DropRc, 2, 0, 0, 0), o(K::DropW, 0, 0, 0, 0)]),
                3 => v.extend([o(K::WsUpgrade, 0, 1, 0, 0)]),
                _ => v.extend([o(K::WsCounted, 0, 2, 0, 0)]), // kept until after the critical section
            }
        }
        v.push(o(K::Unpin, 0, 0, 0, 0));
        v.extend(rounds(1 + rng.below(6) as usize));
        // a Weak that survived the critical section must still own the block
        v.extend([o(K::Upgrade, 2, 3, 0, 0), o(K::DropRc, 3, 0, 0, 0), o(K::CloneW, 2, 3, 0, 0), o(K::DropW, 3, 0, 0, 0)]);
        v.extend(rounds(rng.below(4) as usize));
        v.push(o(K::DropW, 2, 0, 0, 0));
        d.threads.push(thread(2, "reader", v));
    }
    let mut w = vec![o(K::Await, 1, 0, 0, 0), o(K::Pin, 0, 0, 0, 0), o(K::StoreW, WROOT0, NONE_SLOT, 0, 0), o(K::StoreW, 10, NONE_SLOT, 0, 0)];
    if strong_alive {
        w.push(o(K::Store, ROOT0, NONE_SLOT, 0, 0));
    }
    w.extend([o(K::Flush, 0, 0, 0, 0), o(K::Unpin, 0, 0, 0, 0), o(K::Signal, 4, 0, 0, 0)]);
    w.extend(rounds(2 + rng.below(6) as usize));
    d.threads.push(thread(2, "writer", w));
    if rng.chance(0.5) {
        d.threads.push(thread(2, "ticker", rounds(2 + rng.below(6) as usize)));
    }
    // hand-off variant: a Weak re-counted from zero is parked in WROOT[1]; k epochs later a second
    // reader takes a WeakSnapshot of it, releases it (weak 2 -> 1: the leftover token) and stays
    // pinned while the try_dealloc that was pending all along comes due
    let handoff = rng.chance(0.4);
    if handoff {
        for t in d.threads.iter_mut() {
            if t.name == "reader" {
                // park the surviving Weak (slot 2) instead of using it further
                if let Some(pos) = t.ops.iter().position(|x| x.k == K::Unpin) {
                    t.ops.truncate(pos + 1);
                }
                t.ops.extend([o(K::Pin, 0, 0, 0, 0), o(K::StoreW, 10, 2, 0, 0), o(K::Unpin, 0, 0, 0, 0), o(K::Signal, 7, 0, 0, 0)]);
                break;
            }
        }
        let mut r2 = vec![o(K::Await, 7, 0, 0, 0)];
        r2.extend(rounds(rng.below(5) as usize));
        r2.extend([o(K::Pin, 0, 0, 0, 0), o(K::LoadW, 10, 0, 0, 0), o(K::StoreW, 10, NONE_SLOT, 0, 0), o(K::Signal, 8, 0, 0, 0), o(K::Await, 9, 0, 0, 0), o(K::WsCounted, 0, 0, 0, 0), o(K::DropW, 0, 0, 0, 0), o(K::Unpin, 0, 0, 0, 0)]);
        d.threads.push(thread(2, "second-reader", r2));
        let mut t2 = vec![o(K::Await, 8, 0, 0, 0)];
        t2.extend(rounds(2 + rng.below(5) as usize));
        t2.push(o(K::Signal, 9, 0, 0, 0));
        d.threads.push(thread(2, "late-ticker", t2));
    }
    d.params = J::obj().set("template", "T7 weak increment from zero").set("handoff", handoff).set("readers", nreaders).set("strong_alive", strong_alive);
    d
}

/// T8: a reader keeps a Snapshot under an outer guard while inner guards come, are reactivated
/// (which must be a no-op for the critical section) and go, and the object is unlinked and the
/// clock driven by others.
pub fn t8(prop: &str, seed: u64) -> RunDesc {
    let mut rng = Rng::new(seed);
    let mut d = base(&mut rng, prop, "dir-t8", seed, 4);
    let via_parent = rng.chance(0.4);
    d.threads.push(thread(0, "setup", setup_parent_child(true, true)));
    d.threads.push(thread(1, "age", rounds(rng.below(5) as usize)));
    let mut r = vec![o(K::Pin, 0, 0, 0, 0)];
    // what the reader holds: 0 a Snapshot, 1 a Snapshot and a WeakSnapshot (from WROOT[0]), 2 only
    // the WeakSnapshot (C03: the block stays allocated for it)
    let holds = rng.below(3);
    if holds != 2 {
        if via_parent {
            r.extend([o(K::Load, ROOT1, 0, 1, 0), o(K::Load, snap_field(1, 0), 0, 0, 0)]);
        } else {
            r.push(o(K::Load, ROOT0, 0, 0, 0));
        }
    }
    if holds != 0 {
        r.push(o(K::LoadW, WROOT0, 0, 1, 0));
    }
    r.extend([o(K::DerefSnap, 0, 0, 0, 0), o(K::Signal, 1, 0, 0, 0)]);
    // one run in six: 130-270 nested guards come and go under the outer one (whatever the library
    // does every so many pins must not touch the outer critical section)
    if rng.chance(0.17) {
        for _ in 0..130 + rng.below(141) {
            r.extend([o(K::Pin, 1, 0, 0, 0), o(K::Unpin, 1, 0, 0, 0)]);
        }
        r.push(o(K::DerefSnap, 0, 0, 0, 0));
        // ... with garbage around that expired before the reader pinned and is still queued
        let mut g = Vec::new();
        for _ in 0..4 + rng.below(5) {
            g.extend([o(K::New, 0, NONE_SLOT, 0, 0), o(K::DropRc, 0, 0, 0, 0)]);
        }
        g.extend([o(K::Pin, 0, 0, 0, 0), o(K::Flush, 0, 0, 0, 0), o(K::TryAdvance, 0, 0, 0, 0), o(K::Unpin, 0, 0, 0, 0)]);
        for _ in 0..4 {
            g.extend([o(K::Pin, 0, 0, 0, 0), o(K::TryAdvance, 0, 0, 0, 0), o(K::Unpin, 0, 0, 0, 0)]);
        }
        for t in d.threads.iter_mut() {
            if t.name == "age" {
                t.ops = g.clone();
            }
        }
    }
    let k = 3 + rng.below(6);
    for i in 0..k {
        match rng.below(6) {
            0 | 1 => r.extend([o(K::Pin, 1, 0, 0, 0), o(K::Reactivate, 1, 0, 0, 0), o(K::Unpin, 1, 0, 0, 0)]),
            2 => r.extend([o(K::Pin, 1, 0, 0, 0), o(K::ReactAfter, 1, rng.below(4) as u32, 0, 0), o(K::Unpin, 1, 0, 0, 0)]),
            3 => r.extend([o(K::Pin, 1, 0, 0, 0), o(K::Pin, 2, 0, 0, 0), o(K::Reactivate, 2, 0, 0, 0), o(K::Unpin, 1, 0, 0, 0), o(K::Unpin, 2, 0, 0, 0)]),
            4 => r.extend([o(K::New, 3, NONE_SLOT, 0, 0), o(K::DropRc, 3, 0, 0, 0)]),
            _ => r.extend([o(K::Pin, 1, 0, 0, 0), o(K::Flush, 1, 0, 0, 0), o(K::Unpin, 1, 0, 0, 0)]),
        }
        if i < 6 {
            r.push(o(K::Await, 10 + i as u32, 0, 0, 0));
        }
        r.push(o(K::DerefSnap, 0, 0, 0, 0));
    }
    r.extend([o(K::Await, 5, 0, 0, 0), o(K::DerefSnap, 0, 0, 0, 0), o(K::Unpin, 0, 0, 0, 0)]);
    d.threads.push(thread(2, "reader", r));
    let mut w = vec![o(K::Await, 1, 0, 0, 0), o(K::Pin, 0, 0, 0, 0), o(K::Store, ROOT0, NONE_SLOT, 0, 0), o(K::Store, ROOT1, NONE_SLOT, 0, 0), o(K::StoreW, WROOT0, NONE_SLOT, 0, 0), o(K::Flush, 0, 0, 0, 0), o(K::Unpin, 0, 0, 0, 0)];
    for i in 0..8u32 {
        w.extend(rounds(1));
        if i < 6 {
            w.push(o(K::Signal, 10 + i, 0, 0, 0));
        }
    }
    w.push(o(K::Signal, 5, 0, 0, 0));
    d.threads.push(thread(2, "writer", w));
    if rng.chance(0.5) {
        d.threads.push(thread(2, "ticker", rounds(2 + rng.below(6) as usize)));
    }
    d.params = J::obj().set("template", "T8 snapshot under an outer guard across inner reactivations").set("via_parent", via_parent).set("inner_steps", k).set("reader_holds", ["snapshot", "snapshot+weak snapshot", "weak snapshot"][holds as usize]);
    d
}

/// T9: a cascade long enough for the cascading thread to be re-pinned several times (every 128
/// nodes) while other threads advance the clock. When the cascade has reached a chosen depth a
/// pinned reader unlinks the last node's other owner (which stamps that node "now") and keeps
/// its Snapshot: the decision for that node has to use the clock of that moment (C12 decision
/// site), and the reader's Snapshot has to stay valid (C02).
pub fn t9(prop: &str, seed: u64) -> RunDesc {
    let mut rng = Rng::new(seed);
    let mut d = base(&mut rng, prop, "dir-t9", seed, 5);
    d.cfg.max_objects = *rng.pick(&[8u32, 64]);
    d.cfg.manual_interval = *rng.pick(&[2u32, 8, 64]);
    d.cfg.stall = None;
    let len = *rng.pick(&[150u32, 300, 420, 560, 700, 900]);
    d.cfg.signal_depth = len - *rng.pick(&[3u32, 10, 40, 100]);
    // variant C: the late-stamped node is not the chain's tail but the *second* edge of the root,
    // whose first edge leads into the long chain: the cascade comes back to it after the whole
    // chain, several re-pins and clock ticks after it entered the root
    let second_edge = rng.chance(0.35);
    // every chain node gets a real (old) stamp of its own: an extra owner is dropped right away.
    // Without it a node's never-written stamp field reads 0 and the C12 oracle cannot tell a
    // gratuitous deferral from a legitimate one.
    let prestamp = rng.chance(0.5);
    let mut v;
    if second_edge {
        // C in slot 2 (highest class), extra owner in ROOT[0]; chain in slots 0/1; root R in slot 4
        v = vec![o(K::New, 2, NONE_SLOT, 60_001, 0), o(K::Pin, 0, 0, 0, 0), o(K::Clone, 2, 3, 0, 0), o(K::Store, ROOT0, 3, 0, 0), o(K::New, 0, NONE_SLOT, 60_000, 0)];
        for i in 1..len {
            let (cur, prev) = (i % 2, (i - 1) % 2);
            v.push(o(K::New, cur, NONE_SLOT, 60_000 - i, 0));
            if prestamp {
                v.extend([o(K::Clone, cur, 5, 0, 0), o(K::DropRc, 5, 0, 0, 0)]);
            }
            v.push(o(K::Store, rc_field(cur, 0), prev, 0, 0));
        }
        v.extend([
            o(K::New, 4, NONE_SLOT, 1, 0),
            o(K::Store, rc_field(4, 0), (len - 1) % 2, 0, 0),
            o(K::Store, rc_field(4, 1), 2, 0, 0),
            o(K::Store, ROOT1, 4, 0, 0),
            o(K::Unpin, 0, 0, 0, 0),
        ]);
    } else {
        // tail C (slot 0, highest rank class), extra owner of C in ROOT[0]
        v = vec![o(K::New, 0, NONE_SLOT, 60_000, 0), o(K::Pin, 0, 0, 0, 0), o(K::Clone, 0, 2, 0, 0), o(K::Store, ROOT0, 2, 0, 0)];
        for i in 1..len {
            let (cur, prev) = (i % 2, (i - 1) % 2);
            v.push(o(K::New, cur, NONE_SLOT, 60_000 - i, 0));
            if prestamp {
                v.extend([o(K::Clone, cur, 5, 0, 0), o(K::DropRc, 5, 0, 0, 0)]);
            }
            v.push(o(K::Store, rc_field(cur, 0), prev, 0, 0));
        }
        v.push(o(K::Store, ROOT1, (len - 1) % 2, 0, 0));
        v.push(o(K::Unpin, 0, 0, 0, 0));
    }
    let mut t = thread(0, "setup", v);
    t.stack_kib = 2048;
    d.threads.push(t);
    d.threads.push(thread(1, "age", rounds(rng.below(5) as usize)));
    // variant B: the head's destruction is expired but still queued when the reader enters its
    // critical section, and the reader itself flushes repeatedly while it holds its Snapshot and
    // a deferred function of its own. `flush` only schedules a collection for the last unpin; a
    // collection inside the critical section would run the cascade there and re-announce the
    // reader every 128 nodes while the tickers drive the clock.
    let flush_inside = rng.chance(0.35);
    let hold = rng.chance(0.7);
    if flush_inside {
        d.cfg.signal_depth = 0;
        let mut t = thread(2, "releaser", vec![o(K::Pin, 0, 0, 0, 0), o(K::Store, ROOT1, NONE_SLOT, 0, 0), o(K::Flush, 0, 0, 0, 0), o(K::Unpin, 0, 0, 0, 0), o(K::Signal, 8, 0, 0, 0)]);
        t.stack_kib = 2048;
        d.threads.push(t);
        let mut adv = vec![o(K::Await, 8, 0, 0, 0)];
        for _ in 0..4 + rng.below(2) {
            adv.extend([o(K::Pin, 0, 0, 0, 0), o(K::TryAdvance, 0, 0, 0, 0), o(K::Unpin, 0, 0, 0, 0)]);
        }
        adv.push(o(K::Signal, 7, 0, 0, 0));
        d.threads.push(thread(2, "advance", adv));
        for i in 0..2 {
            let mut c = vec![o(K::Await, 9, 0, 0, 0)];
            c.extend(rounds(10 + rng.below(10) as usize));
            if i == 0 {
                c.push(o(K::Signal, 6, 0, 0, 0));
            }
            let mut t = thread(2, "ticker", c);
            t.stack_kib = 2048;
            d.threads.push(t);
        }
        let mut r = vec![
            o(K::Await, 7, 0, 0, 0),
            o(K::Pin, 0, 0, 0, 0),
            o(K::Load, ROOT0, 0, 0, 0),
            o(K::Store, ROOT0, NONE_SLOT, 0, 0),
            o(K::Defer, 0, rng.below(10) as u32, 0, 0),
            o(K::Signal, 9, 0, 0, 0),
        ];
        for _ in 0..2 + rng.below(4) {
            r.extend([o(K::Flush, 0, 0, 0, 0), o(K::DerefSnap, 0, 0, 0, 0)]);
        }
        r.extend([o(K::Await, 6, 0, 0, 0), o(K::DerefSnap, 0, 0, 0, 0), o(K::Unpin, 0, 0, 0, 0)]);
        let mut t = thread(2, "reader", r);
        t.stack_kib = 2048;
        d.threads.push(t);
    } else {
        // releaser: unlinks the head, then helps collecting
        let mut a = vec![o(K::Pin, 0, 0, 0, 0), o(K::Store, ROOT1, NONE_SLOT, 0, 0), o(K::Flush, 0, 0, 0, 0), o(K::Unpin, 0, 0, 0, 0)];
        a.extend(rounds(6 + rng.below(6) as usize));
        let mut t = thread(2, "releaser", a);
        t.stack_kib = 2048;
        d.threads.push(t);
        for i in 0..2 {
            let mut c = rounds(8 + rng.below(10) as usize);
            if i == 0 {
                c.push(o(K::Signal, 6, 0, 0, 0));
            }
            let mut t = thread(2, "ticker", c);
            t.stack_kib = 2048;
            d.threads.push(t);
        }
        let mut r = vec![o(K::Await, 7, 0, 0, 0), o(K::Pin, 0, 0, 0, 0), o(K::Load, ROOT0, 0, 0, 0), o(K::Store, ROOT0, NONE_SLOT, 0, 0), o(K::DerefSnap, 0, 0, 0, 0)];
        if hold {
            r.push(o(K::Await, 6, 0, 0, 0));
        }
        r.extend([o(K::DerefSnap, 0, 0, 0, 0), o(K::Unpin, 0, 0, 0, 0)]);
        let mut t = thread(2, "reader", r);
        t.stack_kib = 2048;
        d.threads.push(t);
    }
    d.cfg.step_cap = 3_000_000;
    d.params = J::obj().set("template", "T9 late stamp deep inside a long cascade").set("len", len).set("signal_depth", d.cfg.signal_depth).set("hold", hold).set("reader_flushes_inside_cs", flush_inside).set("late_node_is_second_edge_of_root", second_edge).set("nodes_prestamped", prestamp);
    d
}

/// T10: the T2 choreography with the unlink done from a thread-local destructor that runs after
/// the thread's participant handle is gone (C20: dropping counted pointers works there too): the
/// parent is retired, the clock advances, a reader pins and loads the child from ROOT[0], the
/// exiting thread's destructor empties ROOT[0] (stamping the child), one more advance lets the
/// parent's cascade reach the child, which must be deferred while the reader is pinned.
pub fn t10(prop: &str, seed: u64) -> RunDesc {
    let mut rng = Rng::new(seed);
    let mut d = base(&mut rng, prop, "dir-t10", seed, 5);
    d.cfg.stall = None;
    let prestamp = rng.chance(0.3);
    // weak variant (C03): the reader holds only a WeakSnapshot loaded from WROOT[0]; the exiting
    // thread's destructor releases the last strong owner and then the last Weak
    let weak_variant = rng.chance(0.35);
    d.threads.push(thread(0, "setup", setup_parent_child_ext(true, weak_variant, prestamp)));
    d.threads.push(thread(1, "age", rounds(rng.below(6) as usize)));
    let m = 1 + rng.below(4) as usize;
    let m2 = 2 + rng.below(5) as usize;
    d.threads.push(thread(2, "retire-parent", vec![o(K::Pin, 0, 0, 0, 0), o(K::Store, ROOT1, NONE_SLOT, 0, 0), o(K::Flush, 0, 0, 0, 0), o(K::Unpin, 0, 0, 0, 0), o(K::Signal, 2, 0, 0, 0)]));
    let mut t = vec![o(K::Await, 2, 0, 0, 0)];
    t.extend(rounds(m));
    t.extend([o(K::Signal, 3, 0, 0, 0), o(K::Await, 8, 0, 0, 0)]);
    t.extend(rounds(m2));
    t.push(o(K::Signal, 5, 0, 0, 0));
    d.threads.push(thread(2, "ticker", t));
    d.threads.push(thread(
        2,
        "reader",
        if weak_variant {
            vec![o(K::Await, 3, 0, 0, 0), o(K::Pin, 0, 0, 0, 0), o(K::LoadW, WROOT0, 0, 1, 0), o(K::Signal, 6, 0, 0, 0), o(K::Await, 5, 0, 0, 0), o(K::WsUpgrade, 1, 0, 0, 0), o(K::Unpin, 0, 0, 0, 0)]
        } else {
            vec![o(K::Await, 3, 0, 0, 0), o(K::Pin, 0, 0, 0, 0), o(K::Load, ROOT0, 0, 0, 0), o(K::DerefSnap, 0, 0, 0, 0), o(K::Signal, 6, 0, 0, 0), o(K::Await, 5, 0, 0, 0), o(K::DerefSnap, 0, 0, 0, 0), o(K::Unpin, 0, 0, 0, 0)]
        },
    ));
    // the exiting thread: registers its handle, then unlinks from its thread-local destructor
    let how = rng.below(3);
    let mut x = thread(2, "exiting", vec![o(K::Pin, 0, 0, 0, 0), o(K::Unpin, 0, 0, 0, 0)]);
    x.tls_mode = if rng.chance(0.8) { 1 } else { 2 };
    x.exit_mode = 0;
    let mut tl = vec![o(K::Await, 6, 0, 0, 0)];
    match how {
        0 => tl.extend([o(K::Pin, 0, 0, 0, 0), o(K::Store, ROOT0, NONE_SLOT, 0, 0), o(K::Unpin, 0, 0, 0, 0)]),
        1 => tl.extend([o(K::Pin, 0, 0, 0, 0), o(K::Swap, ROOT0, 0, 0, 0), o(K::Unpin, 0, 0, 0, 0), o(K::DropRc, 0, 0, 0, 0)]),
        _ => tl.extend([o(K::Pin, 0, 0, 0, 0), o(K::Swap, ROOT0, 0, 0, 0), o(K::Finalize, 0, 0, 0, 0), o(K::Unpin, 0, 0, 0, 0)]),
    }
    if weak_variant {
        tl = vec![o(K::Await, 6, 0, 0, 0), o(K::Pin, 0, 0, 0, 0), o(K::Store, ROOT0, NONE_SLOT, 0, 0), o(K::StoreW, WROOT0, NONE_SLOT, 0, 0), o(K::Unpin, 0, 0, 0, 0)];
    }
    tl.push(o(K::Signal, 8, 0, 0, 0));
    x.tls_ops = tl;
    d.threads.push(x);
    d.params = J::obj().set("template", "T10 unlink from a thread-local destructor while a reader is pinned across the cascade").set("rounds_before_reader", m).set("rounds_after_unlink", m2).set("how", how).set("prestamp", prestamp).set("weak_variant", weak_variant);
    d
}

/// T11: a thread exits while a backlog of expired, uncollected bags sits in the global queue
/// (a pinned holder kept them from expiring while they piled up; the clock was then advanced
/// without collecting). Its thread-local destructor, running after the participant handle is
/// gone and on a small stack, enters a critical section once more. Tear-down must not turn into
/// an unbounded recursion over that backlog (C20), and the backlog is reclaimed later.
pub fn t11(prop: &str, seed: u64) -> RunDesc {
    let mut rng = Rng::new(seed);
    let mut d = base(&mut rng, prop, "dir-t11", seed, 4);
    d.cfg.stall = None;
    d.cfg.max_objects = *rng.pick(&[2u32, 2, 3, 4]);
    d.cfg.manual_interval = 64;
    d.cfg.dtor_api = 0;
    let k = *rng.pick(&[200u32, 400, 700]);
    d.threads.push(thread(1, "holder", vec![o(K::Pin, 0, 0, 0, 0), o(K::Signal, 1, 0, 0, 0), o(K::Await, 2, 0, 0, 0), o(K::Unpin, 0, 0, 0, 0)]));
    // half of the runs: every garbage object was downgraded once, so that its destruction defers
    // again (the release of its block) from inside the collection that runs it
    let weaked = rng.chance(0.5);
    let mut p = vec![o(K::Await, 1, 0, 0, 0)];
    for _ in 0..k {
        p.push(o(K::New, 0, NONE_SLOT, 0, 0));
        if weaked {
            p.extend([o(K::Downgrade, 0, 0, 0, 0), o(K::DropW, 0, 0, 0, 0)]);
        }
        p.push(o(K::DropRc, 0, 0, 0, 0));
    }
    p.extend([o(K::Pin, 0, 0, 0, 0), o(K::Flush, 0, 0, 0, 0), o(K::Unpin, 0, 0, 0, 0), o(K::Signal, 2, 0, 0, 0)]);
    d.threads.push(thread(1, "producer", p));
    // the exiting thread first advances the clock without collecting (so that the backlog is
    // expired when its own participant is finalized), then exits
    let mut t = Vec::new();
    for _ in 0..3 + rng.below(3) {
        t.extend([o(K::Pin, 0, 0, 0, 0), o(K::TryAdvance, 0, 0, 0, 0), o(K::Unpin, 0, 0, 0, 0)]);
    }
    let stack = *rng.pick(&[64u32, 128, 256]);
    let mut x = thread(2, "exiting", t);
    x.tls_mode = if rng.chance(0.8) { 1 } else { 2 };
    x.exit_mode = 0;
    x.stack_kib = stack;
    x.tls_ops = match rng.below(3) {
        0 => vec![o(K::Pin, 0, 0, 0, 0), o(K::Unpin, 0, 0, 0, 0)],
        1 => vec![o(K::New, 0, NONE_SLOT, 0, 0), o(K::DropRc, 0, 0, 0, 0)],
        _ => vec![o(K::Pin, 0, 0, 0, 0), o(K::New, 0, NONE_SLOT, 0, 0), o(K::DropRc, 0, 0, 0, 0), o(K::Unpin, 0, 0, 0, 0), o(K::Pin, 0, 0, 0, 0), o(K::Unpin, 0, 0, 0, 0)],
    };
    // one run in twelve: the destructor enters and leaves hundreds of critical sections, each on
    // a temporary participant of its own, and the thread that collects at the end has a small
    // stack too: whatever those participants leave behind must not pile up into a recursion
    let many = rng.chance(0.08);
    if many {
        let n = *rng.pick(&[1500u32, 2500]);
        x.tls_ops = Vec::new();
        for _ in 0..n {
            x.tls_ops.extend([o(K::Pin, 0, 0, 0, 0), o(K::Unpin, 0, 0, 0, 0)]);
        }
        d.cfg.janitor_stack_kib = 128;
    }
    d.threads.push(x);
    d.cfg.step_cap = 3_000_000;
    d.params = J::obj().set("template", "T11 thread tear-down on a small stack with a backlog of expired bags").set("garbage_objects", k).set("exit_stack_kib", stack).set("garbage_was_downgraded", weaked).set("many_critical_sections_in_destructor", many);
    d
}

/// T12: an advancer meets several exited participants in the registry during the scan of a
/// collection round. Unlinking them defers their destruction into its own bag, which (capacity
/// 2-3) fills up and is sealed in mid-scan; sealing re-announces the advancer at the present
/// epoch. If another thread advanced the clock before that and a third one advances it again
/// afterwards, the scan ends with an epoch value two steps old: the clock must not go back to
/// its successor (C14), and nobody pinned may be passed (C18).
pub fn t12(prop: &str, seed: u64) -> RunDesc {
    let mut rng = Rng::new(seed);
    let mut d = base(&mut rng, prop, "dir-t12", seed, 6);
    d.cfg.stall = None;
    d.cfg.max_objects = *rng.pick(&[2u32, 2, 3]);
    d.cfg.manual_interval = 64;
    d.cfg.dtor_api = 0;
    let exiters = 4 + rng.below(9);
    for _ in 0..exiters {
        let mut e = vec![o(K::Pin, 0, 0, 0, 0)];
        if rng.chance(0.3) {
            e.push(o(K::Defer, 0, rng.below(10) as u32, 0, 0));
        }
        e.push(o(K::Unpin, 0, 0, 0, 0));
        d.threads.push(thread(1, "exiter", e));
    }
    let advancers = 3 + rng.below(2);
    for i in 0..advancers {
        let mut a = Vec::new();
        for _ in 0..2 + rng.below(4) {
            a.extend([o(K::Pin, 0, 0, 0, 0), o(K::Flush, 0, 0, 0, 0), o(K::Unpin, 0, 0, 0, 0)]);
        }
        if i == 0 && rng.chance(0.5) {
            // one of them holds a second guard for a while: a pinned participant the others must respect
            a.insert(0, o(K::Pin, 1, 0, 0, 0));
            a.push(o(K::Unpin, 1, 0, 0, 0));
        }
        d.threads.push(thread(2, "advancer", a));
    }
    // one more participant retires 70-140 things inside a single critical section: every 64th
    // deferral runs an advance attempt (and with it the scan that unlinks the exited
    // participants) under the user's live guard, which must stay where it was announced
    let retirer = rng.chance(0.5);
    if retirer {
        let mut r = vec![o(K::Pin, 0, 0, 0, 0)];
        for _ in 0..70 + rng.below(71) {
            r.push(o(K::Defer, 0, rng.below(10) as u32, 0, 0));
        }
        r.push(o(K::Unpin, 0, 0, 0, 0));
        d.threads.push(thread(2, "retirer", r));
    }
    d.params = J::obj().set("template", "T12 exited participants unlinked during the scan of a collection round").set("retirer_in_one_cs", retirer).set("exiters", exiters).set("advancers", advancers);
    d
}

/// T13: bounded liveness of collection while one participant stays pinned. A producer leaves
/// 20-60 flushed bags of deferred functions and exits; the clock is advanced past their expiry
/// without collecting; then a laggard pins and stays, and a worker makes bags/16 + 6
/// pin/flush/unpin rounds: every one of those functions has expired and must have run by then,
/// whether or not the clock can still move (C15: "after finitely many further rounds by any
/// surviving thread").
pub fn t13(prop: &str, seed: u64) -> RunDesc {
    let mut rng = Rng::new(seed);
    let mut d = base(&mut rng, prop, "dir-t13", seed, 4);
    d.cfg.stall = None;
    d.cfg.max_objects = *rng.pick(&[2u32, 3, 4, 8]);
    d.cfg.manual_interval = 64;
    d.cfg.dtor_api = 0;
    let bags = 20 + rng.below(41) as u32;
    let per = 1 + rng.below(d.cfg.max_objects.min(3) as u64) as u32;
    let mut p = Vec::new();
    for _ in 0..bags {
        p.push(o(K::Pin, 0, 0, 0, 0));
        for _ in 0..per {
            p.push(o(K::Defer, 0, rng.below(10) as u32, 0, 0));
        }
        p.extend([o(K::Flush, 0, 0, 0, 0), o(K::Unpin, 0, 0, 0, 0)]);
    }
    p.push(o(K::Signal, 1, 0, 0, 0));
    p.insert(0, o(K::Await, 4, 0, 0, 0));
    d.threads.push(thread(1, "producer", p));
    // hold the clock still while the producer works, so that nothing is collected on the way
    d.threads.push(thread(1, "holder", vec![o(K::Pin, 0, 0, 0, 0), o(K::Signal, 4, 0, 0, 0), o(K::Await, 1, 0, 0, 0), o(K::Unpin, 0, 0, 0, 0)]));
    let mut adv = Vec::new();
    for _ in 0..4 + rng.below(2) {
        adv.extend([o(K::Pin, 0, 0, 0, 0), o(K::TryAdvance, 0, 0, 0, 0), o(K::Unpin, 0, 0, 0, 0)]);
    }
    d.threads.push(thread(2, "advance", adv));
    d.threads.push(thread(3, "laggard", vec![o(K::Pin, 0, 0, 0, 0), o(K::Signal, 2, 0, 0, 0), o(K::Await, 3, 0, 0, 0), o(K::Unpin, 0, 0, 0, 0)]));
    let rounds_n = bags / 16 + 6 + bags / 2;
    let mut w = vec![o(K::Await, 2, 0, 0, 0)];
    for _ in 0..rounds_n {
        w.extend([o(K::Pin, 0, 0, 0, 0), o(K::Flush, 0, 0, 0, 0), o(K::Unpin, 0, 0, 0, 0)]);
    }
    w.extend([o(K::CheckDeferred, bags * per, 0, 0, 0), o(K::Signal, 3, 0, 0, 0)]);
    // variant: the worker's rounds run in its thread-local destructor, after its handle is gone
    let worker_in_tls = rng.chance(0.4);
    if worker_in_tls {
        let mut t = thread(3, "worker", vec![o(K::Pin, 0, 0, 0, 0), o(K::Unpin, 0, 0, 0, 0)]);
        t.tls_mode = 1;
        t.exit_mode = 0;
        t.tls_ops = w;
        d.threads.push(t);
    } else {
        d.threads.push(thread(3, "worker", w));
    }
    // fault: the 63-bit clock is about to wrap (the bags are sealed just before, or across, the wrap)
    let wrap = rng.chance(0.2);
    if wrap {
        d.cfg.start_epoch = (1u64 << 63) - 1 - rng.below(6);
    }
    d.cfg.step_cap = 1_500_000;
    d.params = J::obj().set("clock_near_wrap", wrap).set("template", "T13 expired bags are collected while a participant stays pinned").set("bags", bags).set("functions", bags * per).set("worker_rounds", rounds_n).set("worker_in_tls_destructor", worker_in_tls);
    d
}

/// B: a bulk iterator gives back its remaining shares (drop or abort) on one thread while the
/// owners it has handed out are released on another: whoever brings the count to zero must
/// notice it, whichever way the two releases interleave (C10, C04).
pub fn b(prop: &str, seed: u64) -> RunDesc {
    let mut rng = Rng::new(seed);
    let mut d = base(&mut rng, prop, "dir-b", seed, 3);
    d.cfg.stall = None;
    let ci = 1 + rng.below(4) as u32; // counts 2, 3, 5, 8
    let count = [1u32, 2, 3, 5, 8][ci as usize];
    let take = 1 + rng.below((count - 1).min(2) as u64) as u32;
    let abort = rng.chance(0.4);
    // the yielded owners land in rc slots 0.. and are published in ROOT[0], ROOT[1]
    let mut a = vec![o(K::IterOpen, ci, take, 0, 0), o(K::Pin, 0, 0, 0, 0)];
    for i in 0..take {
        a.push(o(K::Store, if i == 0 { ROOT0 } else { ROOT1 }, i, 0, 0));
    }
    a.push(o(K::Signal, 1, 0, 0, 0));
    if rng.chance(0.3) {
        a.push(o(K::IterNext, 0, 0, 0, 0));
    }
    if abort {
        a.push(o(K::IterClose, 0, 1, 0, 0));
        a.push(o(K::Unpin, 0, 0, 0, 0));
    } else {
        a.push(o(K::Unpin, 0, 0, 0, 0));
        a.push(o(K::IterClose, 0, 0, 0, 0));
    }
    d.threads.push(thread(0, "iterator", a));
    let mut b = vec![o(K::Await, 1, 0, 0, 0), o(K::Pin, 0, 0, 0, 0)];
    for i in 0..take {
        let cell = if i == 0 { ROOT0 } else { ROOT1 };
        if rng.chance(0.5) {
            b.push(o(K::Store, cell, NONE_SLOT, 0, 0));
        } else {
            b.extend([o(K::Swap, cell, i, 0, 0), o(K::DropRc, i, 0, 0, 0)]);
        }
    }
    b.push(o(K::Unpin, 0, 0, 0, 0));
    d.threads.push(thread(0, "releaser", b));
    if rng.chance(0.4) {
        d.threads.push(thread(0, "ticker", rounds(2 + rng.below(5) as usize)));
    }
    d.params = J::obj().set("template", "B bulk iterator closed while its yielded owners are released elsewhere").set("count", count).set("taken", take).set("abort", abort);
    d
}

/// T14: a WeakSnapshot outlives the last Weak *and* the object. The parent's destruction has
/// expired but is still queued (the clock was advanced without collecting) when a reader pins and
/// loads a WeakSnapshot of the child from WROOT[0]; a writer then drops that last Weak and
/// collects, so the cascade reclaims the child with no Weak outstanding; afterwards the reader,
/// still in the same critical section, upgrades: that must fail (C05), and the block must still
/// be there for it (C03).
pub fn t14(prop: &str, seed: u64) -> RunDesc {
    let mut rng = Rng::new(seed);
    let mut d = base(&mut rng, prop, "dir-t14", seed, 5);
    d.cfg.stall = None;
    // variant: the child is destructed long before (block kept by two weak owners: WROOT[0] and
    // the parent's *weak* field); the last weak owner is then the AtomicWeak that is dropped as
    // a field of the parent when the parent is destructed under the reader
    let weak_in_parent = Rng::new(seed ^ 0x14A).chance(0.4);
    if weak_in_parent {
        d.threads.push(thread(
            0,
            "setup",
            vec![
                o(K::New, 0, NONE_SLOT, 1, 0),
                o(K::New, 1, NONE_SLOT, 2, 0),
                o(K::Pin, 0, 0, 0, 0),
                o(K::Downgrade, 1, 0, 0, 0),
                o(K::StoreW, WROOT0, 0, 0, 0),
                o(K::Downgrade, 1, 0, 0, 0),
                o(K::StoreW, 100, 0, 0, 0), // P.wlink <- weak X
                o(K::Store, ROOT1, 0, 0, 0),
                o(K::DropRc, 1, 0, 0, 0),
                o(K::Flush, 0, 0, 0, 0),
                o(K::Unpin, 0, 0, 0, 0),
            ],
        ));
    } else {
        d.threads.push(thread(0, "setup", setup_parent_child(false, true)));
    }
    d.threads.push(thread(1, "age", rounds(3 + rng.below(4) as usize)));
    d.threads.push(thread(2, "retire-parent", vec![o(K::Pin, 0, 0, 0, 0), o(K::Store, ROOT1, NONE_SLOT, 0, 0), o(K::Flush, 0, 0, 0, 0), o(K::Unpin, 0, 0, 0, 0)]));
    let mut adv = Vec::new();
    for _ in 0..4 + rng.below(2) {
        adv.extend([o(K::Pin, 0, 0, 0, 0), o(K::TryAdvance, 0, 0, 0, 0), o(K::Unpin, 0, 0, 0, 0)]);
    }
    d.threads.push(thread(3, "advance", adv));
    let mut r = vec![o(K::Pin, 0, 0, 0, 0), o(K::LoadW, WROOT0, 0, 1, 0), o(K::Signal, 6, 0, 0, 0)];
    // variant: the reader keeps flushing (scheduling collections) inside its critical section
    // while the writer's rounds move the clock: none of that may end its protection
    let reader_flushes = if Rng::new(seed ^ 0x14B).chance(0.4) { 4 + Rng::new(seed ^ 0x14C).below(8) } else { 0 };
    for i in 0..reader_flushes as u32 {
        // in lock step with the writer's rounds
        r.extend([o(K::Await, 21 + 2 * i, 0, 0, 0), o(K::Flush, 0, 0, 0, 0), o(K::Signal, 22 + 2 * i, 0, 0, 0)]);
    }
    r.push(o(K::Await, 5, 0, 0, 0));
    match rng.below(3) {
        0 => r.extend([o(K::WsUpgrade, 1, 0, 0, 0), o(K::DerefSnap, 0, 0, 0, 0)]),
        1 => r.extend([o(K::WsCounted, 1, 0, 0, 0), o(K::Upgrade, 0, 1, 0, 0), o(K::DerefRc, 1, 0, 0, 0), o(K::DropRc, 1, 0, 0, 0), o(K::DropW, 0, 0, 0, 0)]),
        _ => r.extend([o(K::WsUpgrade, 1, 0, 0, 0), o(K::Counted, 0, 1, 0, 0), o(K::DerefRc, 1, 0, 0, 0), o(K::DropRc, 1, 0, 0, 0)]),
    }
    r.push(o(K::Unpin, 0, 0, 0, 0));
    d.threads.push(thread(4, "reader", r));
    let mut w = vec![o(K::Await, 6, 0, 0, 0), o(K::Pin, 0, 0, 0, 0), o(K::StoreW, WROOT0, NONE_SLOT, 0, 0), o(K::Flush, 0, 0, 0, 0), o(K::Unpin, 0, 0, 0, 0)];
    for i in 0..reader_flushes as u32 {
        w.extend(rounds(1));
        w.extend([o(K::Signal, 21 + 2 * i, 0, 0, 0), o(K::Await, 22 + 2 * i, 0, 0, 0)]);
    }
    w.extend(rounds(1 + rng.below(3) as usize));
    w.push(o(K::Signal, 5, 0, 0, 0));
    d.threads.push(thread(4, "drop-last-weak-and-collect", w));
    d.params = J::obj().set("template", "T14 WeakSnapshot outlives the last Weak and the object").set("last_weak_is_a_field_of_the_parent", weak_in_parent).set("reader_flushes", reader_flushes);
    d
}

/// T15: a thread-local destructor that runs after the handle is gone produces garbage and then
/// relies on its own pin/flush/unpin rounds to get it reclaimed. Every round runs on a temporary
/// participant that is registered and removed again, and nobody else is around: the clock has
/// to move all the same (C20: "running collections work from any point of a thread's life").
pub fn t15(prop: &str, seed: u64) -> RunDesc {
    let mut rng = Rng::new(seed);
    let mut d = base(&mut rng, prop, "dir-t15", seed, 2);
    d.cfg.stall = None;
    d.cfg.dtor_api = 0;
    let k = 1 + rng.below(4) as u32;
    let mut x = thread(1, "exiting", vec![o(K::Pin, 0, 0, 0, 0), o(K::Unpin, 0, 0, 0, 0)]);
    x.tls_mode = 1;
    x.exit_mode = 0;
    let mut tl = vec![o(K::Pin, 0, 0, 0, 0)];
    for _ in 0..k {
        tl.push(o(K::Defer, 0, rng.below(10) as u32, 0, 0));
    }
    tl.extend([o(K::Flush, 0, 0, 0, 0), o(K::Unpin, 0, 0, 0, 0)]);
    for _ in 0..10 + rng.below(8) {
        tl.extend([o(K::Pin, 0, 0, 0, 0), o(K::Flush, 0, 0, 0, 0), o(K::Unpin, 0, 0, 0, 0)]);
    }
    tl.push(o(K::CheckDeferred, k, 0, 0, 0));
    x.tls_ops = tl;
    d.threads.push(x);
    // optionally a second thread that came and went before (its record is still in the registry)
    if rng.chance(0.5) {
        d.threads.push(thread(0, "earlier", vec![o(K::Pin, 0, 0, 0, 0), o(K::Unpin, 0, 0, 0, 0)]));
    }
    let wrap = rng.chance(0.2);
    if wrap {
        d.cfg.start_epoch = (1u64 << 63) - 1 - rng.below(6);
    }
    d.params = J::obj().set("template", "T15 a thread-local destructor collects its own garbage alone").set("functions", k).set("clock_near_wrap", wrap);
    d
}

/// T16: an object whose count reached zero is revived while its deferred destruction attempt is
/// still pending, published again in another cell, loaded from there by a pinned reader and
/// unlinked again during that reader's critical section. The old attempt, whose grace period
/// has nothing to do with this reader, finds a count it must hand back; only a *new* deferred
/// attempt may reclaim the object (C13 at the RC layer, C01, C02).
pub fn t16(prop: &str, seed: u64) -> RunDesc {
    let mut rng = Rng::new(seed);
    let mut d = base(&mut rng, prop, "dir-t16", seed, 4);
    d.cfg.stall = None;
    let how = rng.below(3);
    let k = rng.below(5) as usize;
    let m2 = 2 + rng.below(4) as usize;
    let mut setup = vec![o(K::New, 0, NONE_SLOT, 2, 0), o(K::Pin, 0, 0, 0, 0)];
    if how != 0 {
        setup.extend([o(K::Downgrade, 0, 0, 0, 0), o(K::StoreW, WROOT0, 0, 0, 0)]);
    }
    setup.extend([o(K::Store, ROOT0, 0, 0, 0), o(K::Unpin, 0, 0, 0, 0)]);
    d.threads.push(thread(0, "setup", setup));
    // H: sees X in ROOT[0], revives it after its count reached zero, publishes it in ROOT[1], and
    // in a later critical section loads it from there
    let mut h = vec![o(K::Pin, 0, 0, 0, 0)];
    match how {
        0 => h.push(o(K::Load, ROOT0, 0, 0, 0)),
        1 => h.push(o(K::LoadW, WROOT0, 0, 0, 0)),
        _ => h.extend([o(K::LoadW, WROOT0, 0, 0, 0), o(K::WsCounted, 0, 0, 0, 0)]),
    }
    h.extend([o(K::Signal, 1, 0, 0, 0), o(K::Await, 2, 0, 0, 0)]);
    match how {
        0 => h.push(o(K::Counted, 0, 0, 0, 0)),
        1 => h.extend([o(K::WsUpgrade, 0, 0, 0, 0), o(K::Counted, 0, 0, 0, 0)]),
        _ => h.extend([o(K::Upgrade, 0, 0, 0, 0), o(K::DropW, 0, 0, 0, 0)]),
    }
    h.extend([o(K::Store, ROOT1, 0, 0, 0), o(K::Unpin, 0, 0, 0, 0), o(K::Signal, 3, 0, 0, 0), o(K::Await, 4, 0, 0, 0)]);
    h.extend([o(K::Pin, 0, 0, 0, 0), o(K::Load, ROOT1, 0, 1, 0), o(K::DerefSnap, 1, 0, 0, 0), o(K::Signal, 5, 0, 0, 0), o(K::Await, 6, 0, 0, 0), o(K::DerefSnap, 1, 0, 0, 0), o(K::Unpin, 0, 0, 0, 0)]);
    d.threads.push(thread(1, "holder", h));
    // M: unlinks X from ROOT[0] (count 0, first attempt deferred and sealed), moves the clock k
    // times without collecting, unlinks X from ROOT[1] under the holder's second critical
    // section, then collects
    let mut m = vec![o(K::Await, 1, 0, 0, 0), o(K::Pin, 0, 0, 0, 0), o(K::Store, ROOT0, NONE_SLOT, 0, 0), o(K::Flush, 0, 0, 0, 0), o(K::Unpin, 0, 0, 0, 0), o(K::Signal, 2, 0, 0, 0), o(K::Await, 3, 0, 0, 0)];
    for _ in 0..k {
        m.extend([o(K::Pin, 0, 0, 0, 0), o(K::TryAdvance, 0, 0, 0, 0), o(K::Unpin, 0, 0, 0, 0)]);
    }
    m.extend([o(K::Signal, 4, 0, 0, 0), o(K::Await, 5, 0, 0, 0), o(K::Pin, 0, 0, 0, 0), o(K::Store, ROOT1, NONE_SLOT, 0, 0), o(K::Unpin, 0, 0, 0, 0)]);
    m.extend(rounds(m2));
    m.push(o(K::Signal, 6, 0, 0, 0));
    d.threads.push(thread(1, "unlinker", m));
    if rng.chance(0.3) {
        let n = noise(&mut rng, 1, &d.cfg);
        d.threads.push(n);
    }
    d.params = J::obj().set("template", "T16 revived object republished and unlinked under a later reader while its first attempt is pending").set("revived_by", how).set("clock_moves_between", k).set("rounds_after", m2);
    d
}

/// T17: fault = a deferred function panics inside the collection that `reactivate` (or the
/// first half of `reactivate_after`) runs on the sole guard of a thread, and the caller catches
/// the panic. The guard is still alive afterwards, so the thread has to be inside a critical
/// section still (C16), and what it protects stays protected.
pub fn t17(prop: &str, seed: u64) -> RunDesc {
    let mut rng = Rng::new(seed);
    let mut d = base(&mut rng, prop, "dir-t17", seed, 3);
    d.cfg.stall = None;
    d.cfg.dtor_api = 0;
    d.cfg.manual_interval = 64;
    d.cfg.max_objects = 8;
    // the garbage: one bag that holds nothing but the panicking function, expired but still queued
    let mut a = vec![o(K::Await, 1, 0, 0, 0), o(K::Pin, 0, 0, 0, 0), o(K::Defer, 0, 0, 0, 1), o(K::Flush, 0, 0, 0, 0), o(K::Unpin, 0, 0, 0, 0)];
    for _ in 0..4 + rng.below(3) {
        a.extend([o(K::Pin, 0, 0, 0, 0), o(K::TryAdvance, 0, 0, 0, 0), o(K::Unpin, 0, 0, 0, 0)]);
    }
    a.push(o(K::Signal, 2, 0, 0, 0));
    d.threads.push(thread(1, "garbage", a));
    // the victim (its first pin, which collects, is out of the way before the garbage exists)
    let after = rng.chance(0.4);
    let mut v = vec![o(K::New, 0, NONE_SLOT, 2, 0), o(K::Pin, 0, 0, 0, 0), o(K::Store, ROOT0, 0, 0, 0), o(K::Unpin, 0, 0, 0, 0), o(K::Signal, 1, 0, 0, 0), o(K::Await, 2, 0, 0, 0)];
    v.extend([o(K::Pin, 0, 0, 0, 0), o(K::Flush, 0, 0, 0, 0)]);
    v.push(if after { o(K::ReactAfter, 0, 0, 0, 0) } else { o(K::Reactivate, 0, 1, 0, 0) });
    // the guard is used again: what it loads now must be protected like under any guard
    v.extend([o(K::Load, ROOT0, 0, 0, 0), o(K::Signal, 3, 0, 0, 0), o(K::Await, 4, 0, 0, 0), o(K::DerefSnap, 0, 0, 0, 0), o(K::Unpin, 0, 0, 0, 0)]);
    d.threads.push(thread(1, "victim", v));
    let mut u = vec![o(K::Await, 3, 0, 0, 0), o(K::Pin, 0, 0, 0, 0), o(K::Store, ROOT0, NONE_SLOT, 0, 0), o(K::Flush, 0, 0, 0, 0), o(K::Unpin, 0, 0, 0, 0)];
    u.extend(rounds(3 + rng.below(4) as usize));
    u.push(o(K::Signal, 4, 0, 0, 0));
    d.threads.push(thread(1, "unlink-and-collect", u));
    d.params = J::obj().set("template", "T17 a deferred function panics inside the collection run by reactivate on a sole guard").set("reactivate_after", after);
    d
}

/// T18: garbage made by garbage. A deferred function that runs inside its own thread's
/// collection defers a child and flushes (from inside the collection); the thread then stays
/// alive but never enters the library again. The flush has handed the child to the collector,
/// so the rounds of another thread run it (C15: "after finitely many further rounds by any
/// surviving thread").
pub fn t18(prop: &str, seed: u64) -> RunDesc {
    let mut rng = Rng::new(seed);
    let mut d = base(&mut rng, prop, "dir-t18", seed, 2);
    d.cfg.stall = None;
    d.cfg.dtor_api = 0;
    d.cfg.manual_interval = 64;
    d.cfg.max_objects = *rng.pick(&[4u32, 8, 64]);
    let k = 1 + rng.below(3) as u32;
    let depth = 1 + rng.below(3) as u32;
    let mut a = vec![o(K::Pin, 0, 0, 0, 0), o(K::Unpin, 0, 0, 0, 0), o(K::Pin, 0, 0, 0, 0)];
    for _ in 0..k {
        a.push(o(K::Defer, 0, rng.below(10) as u32, depth, 0));
    }
    a.extend([o(K::Flush, 0, 0, 0, 0), o(K::Unpin, 0, 0, 0, 0)]);
    for _ in 0..4 + rng.below(2) {
        a.extend([o(K::Pin, 0, 0, 0, 0), o(K::TryAdvance, 0, 0, 0, 0), o(K::Unpin, 0, 0, 0, 0)]);
    }
    // this unpin collects: the functions run here and each defers a child and flushes
    a.extend([o(K::Pin, 0, 0, 0, 0), o(K::Flush, 0, 0, 0, 0), o(K::Unpin, 0, 0, 0, 0)]);
    a.extend([o(K::Signal, 1, 0, 0, 0), o(K::Await, 2, 0, 0, 0)]);
    d.threads.push(thread(1, "idle-after-its-collection", a));
    let mut b = vec![o(K::Await, 1, 0, 0, 0)];
    b.extend(rounds(8 + 6 * depth as usize + rng.below(4) as usize));
    b.extend([o(K::CheckDeferred, k * (depth + 1), 0, 0, 0), o(K::Signal, 2, 0, 0, 0)]);
    d.threads.push(thread(1, "survivor", b));
    d.params = J::obj().set("template", "T18 a deferred function defers and flushes from inside its thread's own collection; the thread then idles").set("functions", k).set("chain_depth", depth);
    d
}

/// T19: one unpin whose collection keeps itself busy for many rounds (three staggered chains of
/// objects whose destructors release the next link through a plain `Rc` field and flush), then an
/// ordinary critical section on the same thread with a Snapshot in it, flushing in lock step
/// with another thread's collection rounds. Whatever state the long collection left behind, the
/// later critical section protects what it loaded until its guard is dropped (C16, C02).
pub fn t19(prop: &str, seed: u64) -> RunDesc {
    let mut rng = Rng::new(seed);
    let mut d = base(&mut rng, prop, "dir-t19", seed, 2);
    d.cfg.stall = None;
    d.cfg.dtor_api = 4; // every payload destructor releases its plain-Rc link, then pins, flushes and unpins
    d.cfg.manual_interval = 64;
    d.cfg.max_objects = 64;
    d.cfg.strategy = 0;
    d.cfg.p_switch = 0.05;
    let links = 12 + rng.below(20) as u32;
    // X, the object the later critical section looks at
    let mut v = vec![o(K::New, 5, NONE_SLOT, 60000, 0), o(K::Pin, 0, 0, 0, 0), o(K::Store, ROOT0, 5, 0, 0), o(K::Unpin, 0, 0, 0, 0)];
    // three chains, built tail first in slots 0/1 (the link is the plain Rc field `extra`), the
    // heads parked in slots 2, 3, 4
    for chain in 0..3u32 {
        v.push(o(K::New, 0, NONE_SLOT, 1000 * (chain + 1) + links, 0));
        let mut cur = 0u32;
        for i in (1..links).rev() {
            let nxt = 1 - cur;
            v.push(o(K::New, nxt, cur, 1000 * (chain + 1) + i, 0));
            v.push(o(K::DropRc, cur, 0, 0, 0));
            cur = nxt;
        }
        v.push(o(K::Clone, cur, 2 + chain, 0, 0));
        v.push(o(K::DropRc, cur, 0, 0, 0));
    }
    // release the heads one epoch apart, then one more round: its unpin runs the long collection
    for chain in 0..3u32 {
        v.extend([o(K::Pin, 0, 0, 0, 0), o(K::DropRc, 2 + chain, 0, 0, 0), o(K::Flush, 0, 0, 0, 0), o(K::Unpin, 0, 0, 0, 0)]);
    }
    v.extend(rounds(4 + rng.below(3) as usize));
    // the ordinary critical section
    let steps = 5 + rng.below(4) as u32;
    v.extend([o(K::Pin, 0, 0, 0, 0), o(K::Load, ROOT0, 0, 0, 0), o(K::DerefSnap, 0, 0, 0, 0), o(K::Signal, 1, 0, 0, 0)]);
    for i in 0..steps {
        v.extend([o(K::Await, 21 + 2 * i, 0, 0, 0), o(K::Flush, 0, 0, 0, 0), o(K::Signal, 22 + 2 * i, 0, 0, 0)]);
    }
    v.extend([o(K::Await, 2, 0, 0, 0), o(K::DerefSnap, 0, 0, 0, 0), o(K::Unpin, 0, 0, 0, 0)]);
    d.threads.push(thread(1, "long-collection-then-reader", v));
    let mut w = vec![o(K::Await, 1, 0, 0, 0), o(K::Pin, 0, 0, 0, 0), o(K::Store, ROOT0, NONE_SLOT, 0, 0), o(K::Flush, 0, 0, 0, 0), o(K::Unpin, 0, 0, 0, 0)];
    for i in 0..steps {
        w.extend(rounds(1));
        w.extend([o(K::Signal, 21 + 2 * i, 0, 0, 0), o(K::Await, 22 + 2 * i, 0, 0, 0)]);
    }
    w.extend(rounds(2));
    w.push(o(K::Signal, 2, 0, 0, 0));
    d.threads.push(thread(1, "unlink-and-collect", w));
    d.cfg.step_cap = 1_500_000;
    d.params = J::obj().set("template", "T19 a self-sustaining collection, then an ordinary critical section on the same thread").set("links_per_chain", links).set("lock_steps", steps);
    d
}

/// T5: clock wrap — no collection of the interesting objects while stamps age past 16 / 32
/// epochs, then the T2 choreography.
pub fn t5(prop: &str, seed: u64) -> RunDesc {
    let mut rng = Rng::new(seed);
    let mut d = t2(prop, seed ^ 0x55AA);
    d.family = "dir-t5".into();
    d.seed = seed;
    let age = *rng.pick(&[11usize, 12, 13, 14, 15, 16, 17, 18, 19, 29, 30, 31, 32, 33, 34, 45, 48]);
    for t in d.threads.iter_mut() {
        if t.name == "age" {
            t.ops = rounds(age);
        }
    }
    d.cfg.step_cap = 1_500_000;
    if let J::Obj(m) = &mut d.params {
        m.insert("template".into(), J::Str("T5 clock wrap + reader pinned across a cascade".into()));
        m.insert("link_age_rounds".into(), J::Int(age as i64));
    }
    d
}

/// T6: chains / small trees with an interior node held elsewhere, long enough that disposal
/// re-pins internally (every 128 nodes).
pub fn t6(prop: &str, seed: u64) -> RunDesc {
    let mut rng = Rng::new(seed);
    let mut d = base(&mut rng, prop, "dir-t6", seed, 4);
    let n = *rng.pick(&[3usize, 5, 8, 20, 60, 130, 200, 260]);
    let hold_at = if rng.chance(0.6) { Some(rng.below(n as u64) as usize) } else { None };
    let tree = rng.chance(0.3);
    // build from the tail: node i has rank class n - i + 1 (head lowest), head ends in ROOT[1]
    let mut v = vec![o(K::Pin, 0, 0, 0, 0)];
    let mut cur = 0u32; // slot holding the chain built so far
    for i in (0..n).rev() {
        let s = 1 - cur;
        v.push(o(K::New, s, NONE_SLOT, (i + 1) as u32, 0));
        if i != n - 1 {
            if Some(i + 1) == hold_at {
                v.push(o(K::Clone, cur, 2, 0, 0));
                v.push(o(K::Store, ROOT0, 2, 0, 0));
            }
            if tree && i % 3 == 0 {
                v.push(o(K::Clone, cur, 3, 0, 0));
                v.push(o(K::Store, rc_field(s, 1), 3, 0, 0));
            }
            v.push(o(K::Store, rc_field(s, 0), cur, 0, 0));
        }
        cur = s;
    }
    v.push(o(K::Store, ROOT1, cur, 0, 0));
    v.push(o(K::Unpin, 0, 0, 0, 0));
    d.threads.push(thread(0, "setup", v));
    let age = rng.below(7) as usize;
    d.threads.push(thread(1, "age", rounds(age)));
    let mut rel = vec![o(K::Pin, 0, 0, 0, 0), o(K::Store, ROOT1, NONE_SLOT, 0, 0), o(K::Unpin, 0, 0, 0, 0)];
    rel.extend(rounds(4 + rng.below(6) as usize));
    rel.push(o(K::Signal, 1, 0, 0, 0));
    d.threads.push(thread(2, "release-head", rel));
    // a reader walks the chain meanwhile
    let mut r = vec![o(K::Pin, 0, 0, 0, 0), o(K::Load, ROOT1, 0, 0, 0)];
    for _ in 0..rng.below(6) {
        r.push(o(K::Load, snap_field(0, 0), 0, 0, 0));
        r.push(o(K::DerefSnap, 0, 0, 0, 0));
    }
    r.push(o(K::Unpin, 0, 0, 0, 0));
    d.threads.push(thread(2, "walker", r));
    d.threads.push(thread(2, "ticker", rounds(3 + rng.below(8) as usize)));
    if hold_at.is_some() {
        // the holder checks the interior node after the head is gone, then releases it
        d.threads.push(thread(2, "holder", vec![o(K::Await, 1, 0, 0, 0), o(K::Pin, 0, 0, 0, 0), o(K::Load, ROOT0, 0, 0, 0), o(K::DerefSnap, 0, 0, 0, 0), o(K::Load, snap_field(0, 0), 0, 1, 0), o(K::DerefSnap, 1, 0, 0, 0), o(K::Store, ROOT0, NONE_SLOT, 0, 0), o(K::Unpin, 0, 0, 0, 0)]));
    }
    d.cfg.step_cap = 1_500_000;
    d.params = J::obj().set("template", "T6 chain with held interior node").set("n", n).set("hold_at", hold_at.map(|x| x as i64).unwrap_or(-1)).set("tree", tree).set("link_age_rounds", age);
    d
}

/// W: AtomicWeak compare_exchange with `expected` of each provenance named in C09.
pub fn w(prop: &str, seed: u64) -> RunDesc {
    let mut rng = Rng::new(seed);
    let mut d = base(&mut rng, prop, "dir-w", seed, 3);
    d.cfg.lin = 1;
    // make sure stamps are visible: epoch not a multiple of 16 (but keep the seed's choice otherwise)
    if d.cfg.start_epoch % 16 == 0 && rng.chance(0.8) {
        d.cfg.start_epoch += 1 + rng.below(15);
    }
    let prov = rng.below(3);
    // the cell content: a Weak that went through an AtomicRc (stamped) or not
    let stamped_content = rng.chance(0.7);
    // the cell under test: the shared WROOT[0], or the weak field of a fresh private node that was
    // filled through get_mut() / From<Weak> (no concurrent writers then)
    let private_cell = rng.chance(0.2);
    let fill = 5 + rng.below(2) as u32;
    let cellw = if private_cell { 130 } else { WROOT0 };
    let mut v = vec![o(K::New, 0, NONE_SLOT, 1, 0), o(K::New, 4, NONE_SLOT, 2, 0), o(K::Pin, 0, 0, 0, 0)];
    v.extend(rounds(0));
    if stamped_content {
        v.extend([o(K::Clone, 0, 1, 0, 0), o(K::Store, ROOT0, 1, 0, 0), o(K::Load, ROOT0, 0, 0, 0), o(K::Counted, 0, 1, 0, 0), o(K::Downgrade, 1, 0, 0, 0), o(K::DropRc, 1, 0, 0, 0)]);
    } else {
        v.push(o(K::Downgrade, 0, 0, 0, 0));
    }
    if private_cell {
        v.push(o(K::New, 3, 0, 5, fill));
    } else {
        v.push(o(K::StoreW, WROOT0, 0, 0, 0));
    }
    v.push(o(K::Signal, 1, 0, 0, 0));
    // expected
    match prov {
        0 => v.push(o(K::LoadW, cellw, 0, 0, 0)),
        1 => {
            // downgraded from a Snapshot loaded from an AtomicRc (possibly at another epoch)
            if !stamped_content {
                v.extend([o(K::Clone, 0, 1, 0, 0), o(K::Store, ROOT0, 1, 0, 0)]);
            }
            v.extend([o(K::Load, ROOT0, 0, 0, 0), o(K::SnapDown, 0, 0, 0, 0)]);
        }
        _ => v.extend([o(K::Downgrade, 0, 1, 0, 0), o(K::WSnapOf, 1, 0, 0, 0)]),
    }
    // desired: a weak pointer to the other object
    v.push(o(K::Downgrade, 4, 2, 0, 0));
    let which = rng.below(3);
    let attempts = 1 + rng.below(4);
    for i in 0..attempts {
        match which {
            0 => v.push(o(K::CasW, cellw, 0, 2, 0)),
            1 => v.push(o(K::CasW, cellw, 0, 2, 1)),
            _ => v.push(o(K::CasTagW, cellw, 0, 1 + rng.below(3) as u32, 0)),
        }
        if i + 1 < attempts {
            // try again with the same (stale-stamped) expected after the flipper had a turn
            v.push(o(K::WSnapOf, 1, 0, 0, 0));
            if prov != 2 {
                v.push(o(K::Downgrade, 0, 1, 0, 0));
                v.push(o(K::WSnapOf, 1, 0, 0, 0));
            }
            v.push(o(K::Downgrade, 4, 2, 0, 0));
        }
    }
    v.push(o(K::LoadW, cellw, 0, 2, 0));
    v.push(o(K::Unpin, 0, 0, 0, 0));
    d.threads.push(thread(0, "actor", v));
    if !private_cell && rng.chance(0.6) {
        // a concurrent writer flipping the cell between weak pointers to P and to another object
        let mut c = rounds(rng.below(3) as usize);
        c.extend([o(K::New, 0, NONE_SLOT, 3, 0), o(K::Downgrade, 0, 0, 0, 0), o(K::Pin, 0, 0, 0, 0)]);
        for _ in 0..2 + rng.below(6) {
            c.push(o(K::SwapW, WROOT0, 0, 0, 0));
        }
        c.push(o(K::Unpin, 0, 0, 0, 0));
        d.threads.push(thread(0, "flipper", c));
    }
    let restamper = !private_cell && rng.chance(0.5);
    if restamper {
        // a concurrent re-stamper: swaps in weak pointers to the *same* object and tag, each
        // carrying another internal stamp (they went through an AtomicRc at different epochs)
        let mut c = vec![o(K::Await, 1, 0, 0, 0), o(K::Pin, 0, 0, 0, 0), o(K::LoadW, WROOT0, 0, 0, 0), o(K::WsUpgrade, 0, 0, 0, 0), o(K::Counted, 0, 1, 0, 0), o(K::Unpin, 0, 0, 0, 0)];
        for _ in 0..2 + rng.below(5) {
            c.extend(rounds(rng.below(3) as usize));
            c.extend([
                o(K::Pin, 0, 0, 0, 0),
                o(K::Clone, 1, 2, 0, 0),
                o(K::Store, ROOT1, 2, 0, 0),
                o(K::Load, ROOT1, 0, 0, 0),
                o(K::SnapDown, 0, 0, 0, 0),
                o(K::WsCounted, 0, 0, 0, 0),
                o(K::SwapW, WROOT0, 0, 0, 0),
                o(K::DropW, 0, 0, 0, 0),
                o(K::Unpin, 0, 0, 0, 0),
            ]);
        }
        d.threads.push(thread(0, "restamper", c));
    }
    d.params = J::obj().set("template", "W expected-provenance for AtomicWeak CAS").set("restamper", restamper).set("private_cell_filled_by", if private_cell { if fill == 5 { "get_mut" } else { "From<Weak>" } } else { "" }).set("provenance", prov).set("stamped_content", stamped_content).set("op", which);
    d
}

/// C: AtomicRc compare_exchange with `expected` snapshots whose internal stamp differs from the
/// cell's (loaded from another cell that holds the same object, written at another epoch; taken
/// from an Rc; or the cell is re-stamped between the load and the CAS by tag flips), racing a
/// concurrent writer.
pub fn c(prop: &str, seed: u64) -> RunDesc {
    let mut rng = Rng::new(seed);
    let mut d = base(&mut rng, prop, "dir-c", seed, 3);
    d.cfg.lin = 1;
    if d.cfg.start_epoch % 16 == 0 && rng.chance(0.8) {
        d.cfg.start_epoch += 1 + rng.below(15);
    }
    let prov = rng.below(4);
    let gap = rng.below(20) as usize; // epochs between the two stores (stamps differ mod 16 unless gap % 16 == 0)
    let tagged = rng.chance(0.3);
    let mut v = vec![o(K::New, 0, NONE_SLOT, 1, 0), o(K::New, 4, NONE_SLOT, 2, 0)];
    if tagged {
        v.push(o(K::RcTag, 0, 1 + rng.below(3) as u32, 0, 0));
    }
    // ROOT[1] <- X early, ROOT[0] <- X `gap` epochs later
    v.extend([o(K::Pin, 0, 0, 0, 0), o(K::Clone, 0, 1, 0, 0), o(K::Store, ROOT1, 1, 0, 0), o(K::Unpin, 0, 0, 0, 0)]);
    v.extend(rounds(gap));
    v.extend([o(K::Pin, 0, 0, 0, 0), o(K::Clone, 0, 1, 0, 0), o(K::Store, ROOT0, 1, 0, 0)]);
    match prov {
        0 => v.push(o(K::Load, ROOT0, 0, 0, 0)),
        1 => v.push(o(K::Load, ROOT1, 0, 0, 0)),
        2 => v.push(o(K::SnapOf, 0, 0, 0, 0)),
        _ => {
            // expected loaded from the cell, then the cell is re-stamped by tag flips
            v.push(o(K::Load, ROOT0, 0, 0, 0));
            v.push(o(K::Signal, 1, 0, 0, 0));
            v.push(o(K::Await, 2, 0, 0, 0));
        }
    }
    let which = rng.below(3);
    // variant (weak CAS only): many attempts against a busy flipper, frequent switches: whatever
    // the retry loop of compare_exchange_weak does after a stamp-only mismatch, it does it while
    // the cell changes under it
    let busy = which == 1 && prov != 3 && Rng::new(seed ^ 0xC8).chance(0.6);
    let attempts = if busy { 4 + rng.below(5) } else { 1 + rng.below(3) };
    if busy {
        d.cfg.strategy = 0;
        d.cfg.p_switch = 0.7;
    }
    for _ in 0..attempts {
        match which {
            0 => v.push(o(K::Cas, ROOT0, 0, 4, 0)),
            1 => v.push(o(K::Cas, ROOT0, 0, 4, 1)),
            _ => v.push(o(K::CasTag, ROOT0, 0, rng.below(4) as u32, 0)),
        }
    }
    v.extend([o(K::Load, ROOT0, 0, 2, 0), o(K::Unpin, 0, 0, 0, 0)]);
    d.threads.push(thread(0, "actor", v));
    if prov == 3 {
        // re-stamper: flips the tag there and back in later epochs
        let mut c = vec![o(K::Await, 1, 0, 0, 0)];
        for _ in 0..1 + rng.below(2) {
            c.extend([o(K::Pin, 0, 0, 0, 0), o(K::Load, ROOT0, 0, 0, 0), o(K::CasTag, ROOT0, 0, 1, 0), o(K::CasTag, ROOT0, 0, 0, 0), o(K::Unpin, 0, 0, 0, 0)]);
        }
        c.push(o(K::Signal, 2, 0, 0, 0));
        d.threads.push(thread(0, "re-stamper", c));
    } else if rng.chance(0.6) || busy {
        let mut c = rounds(if busy { 0 } else { rng.below(3) as usize });
        c.extend([o(K::New, 0, NONE_SLOT, 3, 0), o(K::Pin, 0, 0, 0, 0)]);
        for _ in 0..2 + rng.below(5) + if busy { 12 } else { 0 } {
            c.push(o(K::Swap, ROOT0, 0, 0, 0));
        }
        c.push(o(K::Unpin, 0, 0, 0, 0));
        d.threads.push(thread(0, "flipper", c));
    }
    if rng.chance(0.3) {
        d.threads.push(thread(0, "ticker", rounds(1 + rng.below(4) as usize)));
    }
    d.params = J::obj().set("template", "C expected-provenance for AtomicRc CAS").set("provenance", prov).set("epoch_gap", gap).set("op", which).set("tagged", tagged).set("busy_flipper", busy);
    d
}
