//! Quarantining bump allocator.
//!
//! While a simulated run is active (only ever inside a forked child) every allocation comes
//! from a private arena and is never reused: a freed block is poisoned with 0xDD and its
//! granules are marked in a bitmap. This (a) removes address reuse (no ABA on freed blocks, so
//! behaviour cannot depend on allocator timing), (b) gives an O(1) use-after-free test for any
//! address (`is_freed`), (c) lets the end of a run verify that nobody wrote into freed memory.
//! Frees of *registered* blocks (reference-counted objects) are also queued in a small ring so
//! that the shadow model sees `Dealloc(object)` without relying on an event hook.

use std::alloc::{GlobalAlloc, Layout, System};
use std::sync::atomic::{AtomicBool, AtomicU8, AtomicUsize, Ordering::*};

pub struct Quarantine;

static ACTIVE: AtomicBool = AtomicBool::new(false);
static BASE: AtomicUsize = AtomicUsize::new(0);
static END: AtomicUsize = AtomicUsize::new(0);
static NEXT: AtomicUsize = AtomicUsize::new(0);
static BITMAP: AtomicUsize = AtomicUsize::new(0);
static POISON: AtomicBool = AtomicBool::new(true);

const ARENA_SIZE: usize = 6 << 30; // virtual, MAP_NORESERVE
const GRANULE_SHIFT: usize = 3;

// registered object blocks: open addressing table of addresses
const TAB_SIZE: usize = 1 << 16;
static TAB: [AtomicUsize; TAB_SIZE] = [const { AtomicUsize::new(0) }; TAB_SIZE];
// ring of freed registered blocks
const RING_SIZE: usize = 1 << 12;
static RING: [AtomicUsize; RING_SIZE] = [const { AtomicUsize::new(0) }; RING_SIZE];
static RING_HEAD: AtomicUsize = AtomicUsize::new(0);
static RING_TAIL: AtomicUsize = AtomicUsize::new(0);
pub static RING_OVERFLOW: AtomicBool = AtomicBool::new(false);
pub static FREES: AtomicUsize = AtomicUsize::new(0);
/// address of the first block freed twice during the run (0 = none)
pub static DOUBLE_FREE: AtomicUsize = AtomicUsize::new(0);
pub static ALLOCS: AtomicUsize = AtomicUsize::new(0);

/// Reserve the arena (call once in the long-lived parent, before forking runs).
pub fn reserve() {
    unsafe {
        if BASE.load(Relaxed) != 0 {
            return;
        }
        let p = libc::mmap(
            std::ptr::null_mut(),
            ARENA_SIZE,
            libc::PROT_READ | libc::PROT_WRITE,
            libc::MAP_PRIVATE | libc::MAP_ANONYMOUS | libc::MAP_NORESERVE,
            -1,
            0,
        );
        assert!(p != libc::MAP_FAILED, "arena mmap failed");
        let bm = libc::mmap(
            std::ptr::null_mut(),
            ARENA_SIZE >> (GRANULE_SHIFT + 3),
            libc::PROT_READ | libc::PROT_WRITE,
            libc::MAP_PRIVATE | libc::MAP_ANONYMOUS | libc::MAP_NORESERVE,
            -1,
            0,
        );
        assert!(bm != libc::MAP_FAILED, "bitmap mmap failed");
        BASE.store(p as usize, SeqCst);
        END.store(p as usize + ARENA_SIZE, SeqCst);
        NEXT.store(p as usize, SeqCst);
        BITMAP.store(bm as usize, SeqCst);
    }
}

/// Start quarantining (call in the forked child, single-threaded).
pub fn activate(poison: bool) {
    assert!(BASE.load(SeqCst) != 0);
    POISON.store(poison, SeqCst);
    ACTIVE.store(true, SeqCst);
}

pub fn is_active() -> bool {
    ACTIVE.load(Relaxed)
}

#[inline]
pub fn in_arena(addr: usize) -> bool {
    addr >= BASE.load(Relaxed) && addr < END.load(Relaxed)
}

#[inline]
fn bit(addr: usize) -> (*mut u8, u8) {
    let g = (addr - BASE.load(Relaxed)) >> GRANULE_SHIFT;
    ((BITMAP.load(Relaxed) + (g >> 3)) as *mut u8, 1u8 << (g & 7))
}

/// Has the granule containing `addr` been freed during this run?
#[inline]
pub fn is_freed(addr: usize) -> bool {
    if !in_arena(addr) {
        return false;
    }
    let (p, m) = bit(addr);
    unsafe { (*p & m) != 0 }
}

fn mark_freed(addr: usize, size: usize) {
    let mut a = addr & !((1 << GRANULE_SHIFT) - 1);
    let end = addr + size.max(1);
    while a < end {
        let (p, m) = bit(a);
        unsafe { (*(p as *const AtomicU8)).fetch_or(m, Relaxed) };
        a += 1 << GRANULE_SHIFT;
    }
}

#[inline]
fn tab_slot(addr: usize) -> usize {
    (addr >> 3).wrapping_mul(0x9E37_79B9_7F4A_7C15) >> (64 - 16)
}

/// Register an object block so that its deallocation is reported through the ring.
pub fn register_block(addr: usize) {
    let mut i = tab_slot(addr);
    for _ in 0..TAB_SIZE {
        let cur = TAB[i].load(Relaxed);
        if cur == 0 || cur == addr {
            TAB[i].store(addr, Relaxed);
            return;
        }
        i = (i + 1) & (TAB_SIZE - 1);
    }
    panic!("block table full");
}

fn is_registered(addr: usize) -> bool {
    let mut i = tab_slot(addr);
    for _ in 0..TAB_SIZE {
        let cur = TAB[i].load(Relaxed);
        if cur == 0 {
            return false;
        }
        if cur == addr {
            return true;
        }
        i = (i + 1) & (TAB_SIZE - 1);
    }
    false
}

/// Pop one freed registered block address, if any.
pub fn pop_freed() -> Option<usize> {
    let t = RING_TAIL.load(Relaxed);
    if t == RING_HEAD.load(Acquire) {
        return None;
    }
    let v = RING[t & (RING_SIZE - 1)].load(Relaxed);
    RING_TAIL.store(t + 1, Release);
    Some(v)
}

#[inline]
pub fn ring_nonempty() -> bool {
    RING_TAIL.load(Relaxed) != RING_HEAD.load(Relaxed)
}

/// Scan all freed granules and verify the poison pattern; returns the first corrupted address.
pub fn verify_poison() -> Option<usize> {
    if !POISON.load(Relaxed) {
        return None;
    }
    let base = BASE.load(Relaxed);
    let used = NEXT.load(Relaxed) - base;
    let bm = BITMAP.load(Relaxed) as *const u8;
    let granules = used >> GRANULE_SHIFT;
    let mut g = 0usize;
    while g < granules {
        let byte = unsafe { *bm.add(g >> 3) };
        if byte == 0 {
            g = (g | 7) + 1;
            continue;
        }
        if byte & (1 << (g & 7)) != 0 {
            let a = base + (g << GRANULE_SHIFT);
            let w = unsafe { *(a as *const u64) };
            if w != 0xDDDD_DDDD_DDDD_DDDD {
                return Some(a);
            }
        }
        g += 1;
    }
    None
}

const CAP_SLOTS: usize = 32;
static CAP_THREAD: [AtomicUsize; CAP_SLOTS] = [const { AtomicUsize::new(0) }; CAP_SLOTS];
static CAP_SIZE: [AtomicUsize; CAP_SLOTS] = [const { AtomicUsize::new(0) }; CAP_SLOTS];
static CAP_ADDR: [AtomicUsize; CAP_SLOTS] = [const { AtomicUsize::new(0) }; CAP_SLOTS];
static CAP_ANY: AtomicUsize = AtomicUsize::new(0);

/// Start capturing the address of the next allocation of exactly `size` bytes made by the
/// calling thread (used to learn the block address of an object whose constructor hands out no
/// pointer, e.g. `new_many::<0>`). Captures are per OS thread: the constructor may yield to other
/// simulated threads before it returns.
pub fn capture_begin(size: usize) {
    let me = unsafe { libc::pthread_self() } as usize;
    for i in 0..CAP_SLOTS {
        if CAP_THREAD[i].load(SeqCst) == 0 {
            CAP_ADDR[i].store(0, SeqCst);
            CAP_SIZE[i].store(size, SeqCst);
            CAP_THREAD[i].store(me, SeqCst);
            CAP_ANY.fetch_add(1, SeqCst);
            return;
        }
    }
}

pub fn capture_end() -> Option<usize> {
    let me = unsafe { libc::pthread_self() } as usize;
    for i in 0..CAP_SLOTS {
        if CAP_THREAD[i].load(SeqCst) == me {
            CAP_THREAD[i].store(0, SeqCst);
            CAP_ANY.fetch_sub(1, SeqCst);
            return match CAP_ADDR[i].load(SeqCst) {
                0 => None,
                a => Some(a),
            };
        }
    }
    None
}

#[inline]
fn capture(ptr: *mut u8, size: usize) {
    if CAP_ANY.load(Relaxed) == 0 {
        return;
    }
    let me = unsafe { libc::pthread_self() } as usize;
    for i in 0..CAP_SLOTS {
        if CAP_THREAD[i].load(Relaxed) == me && CAP_SIZE[i].load(Relaxed) == size && CAP_ADDR[i].load(Relaxed) == 0 {
            CAP_ADDR[i].store(ptr as usize, SeqCst);
            return;
        }
    }
}

pub fn bytes_used() -> usize {
    NEXT.load(Relaxed) - BASE.load(Relaxed)
}

unsafe impl GlobalAlloc for Quarantine {
    unsafe fn alloc(&self, layout: Layout) -> *mut u8 {
        if !ACTIVE.load(Relaxed) {
            let p = System.alloc(layout);
            capture(p, layout.size());
            return p;
        }
        ALLOCS.fetch_add(1, Relaxed);
        // round everything to granules so that poison verification can use whole words
        let align = layout.align().max(1 << GRANULE_SHIFT);
        let size = (layout.size().max(1) + (1 << GRANULE_SHIFT) - 1) & !((1 << GRANULE_SHIFT) - 1);
        loop {
            let cur = NEXT.load(Relaxed);
            let start = (cur + align - 1) & !(align - 1);
            let end = start + size;
            if end > END.load(Relaxed) {
                return std::ptr::null_mut();
            }
            if NEXT
                .compare_exchange_weak(cur, end, Relaxed, Relaxed)
                .is_ok()
            {
                capture(start as *mut u8, layout.size());
                return start as *mut u8;
            }
        }
    }

    unsafe fn dealloc(&self, ptr: *mut u8, layout: Layout) {
        let addr = ptr as usize;
        if !in_arena(addr) {
            return System.dealloc(ptr, layout);
        }
        FREES.fetch_add(1, Relaxed);
        if is_freed(addr) && DOUBLE_FREE.load(Relaxed) == 0 {
            DOUBLE_FREE.store(addr, Relaxed);
        }
        let size = (layout.size().max(1) + (1 << GRANULE_SHIFT) - 1) & !((1 << GRANULE_SHIFT) - 1);
        if POISON.load(Relaxed) {
            std::ptr::write_bytes(ptr, 0xDD, size);
        }
        mark_freed(addr, size);
        if is_registered(addr) {
            let h = RING_HEAD.load(Relaxed);
            if h - RING_TAIL.load(Relaxed) >= RING_SIZE {
                RING_OVERFLOW.store(true, Relaxed);
            } else {
                RING[h & (RING_SIZE - 1)].store(addr, Relaxed);
                RING_HEAD.store(h + 1, Release);
            }
        }
    }

    unsafe fn realloc(&self, ptr: *mut u8, layout: Layout, new_size: usize) -> *mut u8 {
        if !in_arena(ptr as usize) && !ACTIVE.load(Relaxed) {
            return System.realloc(ptr, layout, new_size);
        }
        let new_layout = Layout::from_size_align_unchecked(new_size, layout.align());
        let new_ptr = self.alloc(new_layout);
        if !new_ptr.is_null() {
            std::ptr::copy_nonoverlapping(ptr, new_ptr, layout.size().min(new_size));
            self.dealloc(ptr, layout);
        }
        new_ptr
    }
}
