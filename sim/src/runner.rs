//! Executing one run in a forked child, and the parent side that collects its result.

use std::sync::atomic::Ordering::*;
use std::sync::Arc;

use crate::alloc;
use crate::interp::{self, World};
use crate::json::J;
use crate::ops::*;
use crate::payload::{AlignMarker, Node, A32, A8};
use crate::sched::{self, sim, Outcome, SimConfig, Stall, Strategy, ThreadSpec, Violation, NSITES};
use crate::shadow::{self, shadow, Shadow};
use crate::shm;

static mut PANIC_INFO: Option<(String, String)> = None;
static mut EXTRA: Option<J> = None;

#[allow(static_mut_refs)]
pub fn extra_result() -> J {
    let mut j = unsafe { EXTRA.clone() }.unwrap_or_else(J::obj);
    if shadow::installed() {
        j.put("counters", shadow().counters_json());
        j.put("soft", shadow().soft_json());
        let e = &shadow().ebr;
        j.put(
            "ebr",
            J::obj()
                .set("pinned_checks", e.n_checks)
                .set("pinned_across_advance", e.n_pinned_across_advance)
                .set("pin_retry", e.n_pin_retry)
                .set("repinned", e.n_repinned)
                .set("advance_refused", e.n_advance_refused)
                .set("registered", e.n_registered)
                .set("finalize_nonempty", e.n_finalize_nonempty),
        );
    }
    j.put("arena_bytes", alloc::bytes_used());
    j
}

#[allow(static_mut_refs)]
pub fn set_extra(k: &str, v: impl Into<J>) {
    unsafe {
        if EXTRA.is_none() {
            EXTRA = Some(J::obj());
        }
        EXTRA.as_mut().unwrap().put(k, v);
    }
}

#[allow(static_mut_refs)]
pub fn on_thread_panic(tid: usize, payload: Box<dyn std::any::Any + Send>) {
    let (loc, msg) = unsafe { PANIC_INFO.clone() }.unwrap_or_else(|| {
        let m = payload.downcast_ref::<&str>().map(|s| s.to_string()).or_else(|| payload.downcast_ref::<String>().cloned()).unwrap_or_else(|| "?".into());
        ("?".into(), m)
    });
    let s = sim();
    // harness sources compile with relative paths ("src/..."), the library (a path dependency
    // outside this workspace, wherever it lives) and std with absolute ones
    if loc.starts_with('/') {
        let file = match loc.find("/src/") {
            Some(i) if !loc.starts_with("/rustc/") => loc[i + 1..].to_string(),
            _ => loc.clone(),
        };
        let prop = panic_prop(&file, &s.default_prop);
        let det = format!("library panicked on t{} at {}: {}", tid, file, msg);
        let short = file.split(':').take(2).collect::<Vec<_>>().join(":");
        s.violation(&prop, "library-panic", &format!("library-panic/{}", short), &det);
    } else {
        s.harness_error(&format!("harness panic on t{} at {}: {}", tid, loc, msg));
    }
}

/// Which property a panic inside the library belongs to, by where it happened.
fn panic_prop(file: &str, default: &str) -> String {
    if file.contains("utils.rs") || file.contains("strong.rs") || file.contains("weak.rs") {
        // count-word assertions: an owner/token accounting error
        if default.starts_with('C') && ["C01", "C02", "C03", "C04", "C05", "C08", "C09", "C10"].contains(&default) {
            return default.to_string();
        }
        return "C01".to_string();
    }
    if file.contains("default.rs") {
        return "C20".to_string();
    }
    default.to_string()
}

fn install_panic_hook() {
    std::panic::set_hook(Box::new(|info| {
        let loc = info.location().map(|l| format!("{}:{}:{}", l.file(), l.line(), l.column())).unwrap_or_else(|| "?".into());
        let msg = info.payload().downcast_ref::<&str>().map(|s| s.to_string()).or_else(|| info.payload().downcast_ref::<String>().cloned()).unwrap_or_else(|| "?".into());
        shm::panic_note(&format!("{} :: {}", loc, msg));
        #[allow(static_mut_refs)]
        unsafe {
            if PANIC_INFO.is_none() {
                PANIC_INFO = Some((loc, msg));
            }
        }
    }));
}

pub fn clock() -> u64 {
    circ::verif::peek_global_epoch(circ::verif::default_collector()) as u64
}

pub fn build_strategy(cfg: &RunCfg, nthreads: usize, seed: u64) -> Strategy {
    let mut rng = crate::rng::Rng::new(crate::rng::mix(&[seed, 0x57A7]));
    match cfg.strategy {
        1 => {
            let mut prio: Vec<u32> = (0..nthreads as u32).map(|i| 1000 + i).collect();
            rng.shuffle(&mut prio);
            let horizon = 3000u64;
            let change = (0..cfg.pct_depth.saturating_sub(1)).map(|_| 1 + rng.below(horizon)).collect();
            Strategy::Pct { prio, change, next_low: 900 }
        }
        2 => {
            let mut hot = [false; NSITES];
            for (i, cl) in crate::gen::hot_classes().iter().enumerate() {
                if cfg.hot_mask & (1 << i) != 0 {
                    for &s in cl {
                        hot[s as usize] = true;
                    }
                }
            }
            Strategy::HotSite { hot, p_hot: 0.9, p_cold: 0.01 }
        }
        _ => Strategy::Random { p: cfg.p_switch },
    }
}

pub fn sim_config(desc: &RunDesc, nthreads: usize) -> SimConfig {
    let cfg = &desc.cfg;
    SimConfig {
        seed: desc.seed,
        strategy: build_strategy(cfg, nthreads, desc.seed),
        stall: cfg.stall.as_ref().map(|s| Stall { victim: s.victim as usize, site: s.site, nth: s.nth, k: s.k, release_signal: s.release_signal, only_unpinned: false, hits: 0, frozen_at_epoch: None, done: false }),
        step_cap: cfg.step_cap,
        replay: desc.schedule.clone(),
        default_prop: desc.prop.clone(),
        buggify_p: cfg.buggify_p,
        buggify_sites: [true; 8],
        buggify_script: desc.buggify_script.clone(),
        uaf_check: cfg.quarantine,
    }
}

/// Common child-side initialisation of the library under test.
pub fn init_library(cfg: &RunCfg) {
    if cfg.quarantine {
        alloc::activate(true);
    }
    install_panic_hook();
    circ::verif::install(&sched::HOOKS);
    let c = circ::verif::default_collector();
    circ::verif::set_global_epoch(c, cfg.start_epoch as usize);
    circ::verif::set_knobs(cfg.max_objects.max(1) as usize, cfg.manual_interval.max(1) as usize);
    crate::payload::POP_POLICY.store(std::env::var("VERIF_POP_POLICY").ok().and_then(|v| v.parse().ok()).unwrap_or(cfg.pop_policy as u8), SeqCst);
    crate::interp::ORD_MODE.store(cfg.ord_mode as u8, SeqCst);
    crate::payload::DTOR_API.store(cfg.dtor_api as u8, SeqCst);
}

fn run_interp<M: AlignMarker>(desc: &RunDesc) -> ! {
    let cfg = &desc.cfg;
    init_library(cfg);
    let world: &'static World<M> = Box::leak(Box::new(World {
        roots: (0..cfg.roots.max(1)).map(|_| circ::AtomicRc::null()).collect(),
        wroots: (0..cfg.wroots.max(1)).map(|_| circ::AtomicWeak::null()).collect(),
    }));
    // learn where the payload sits inside an object block
    {
        let probe = circ::Rc::new(Node::<M>::new(u64::MAX));
        let w = circ::verif::rc_word(&probe);
        let off = probe.as_ref().unwrap() as *const Node<M> as usize - (w & circ::verif::addr_mask::<Node<M>>());
        interp::circ_inner::set_data_offset(off);
        std::mem::forget(probe);
    }
    let n = desc.threads.len();
    // The tag bits the model expects are the unused low bits of a pointer to the payload type
    // ("the tag is truncated to fit into the unused bits"), computed here from the type's alignment,
    // not taken from the library: a cell is a (pointer, tag) pair over *those* tags (C08/C09).
    let tag_mask = std::mem::align_of::<Node<M>>().max(std::mem::align_of::<u64>()) - 1;
    let mut sh = Shadow::new(n + 1, circ::verif::addr_mask::<Node<M>>(), tag_mask);
    sh.global_epoch_addr = circ::verif::global_epoch_addr(circ::verif::default_collector());
    sh.block_size = circ::verif::block_layout::<Node<M>>().0;
    sh.ebr.enable(sh.global_epoch_addr);
    match desc.family.as_str() {
        "rc-cells" | "dir-c" => sh.strong_extra = ",C08",
        "rc-bulk" | "dir-b" => {
            // owners handed out in bulk stay owners whatever is done with them afterwards
            sh.strong_extra = ",C10";
            sh.weak_extra = ",C10";
        }
        "rc-wcells" | "dir-w" => sh.weak_extra = ",C09",
        "tls" | "ebr-churn" | "dir-t10" | "dir-t11" => sh.leak_extra = ",C20",
        _ => {}
    }
    sh.signal_depth = desc.cfg.signal_depth;
    sh.signal_pop_class = desc.cfg.signal_pop_class;
    shadow::install(sh);
    let mut specs = Vec::new();
    let max_phase = desc.threads.iter().map(|t| t.phase).max().unwrap_or(0);
    let progs: Arc<Vec<ThreadProg>> = Arc::new(desc.threads.clone());
    for (i, t) in desc.threads.iter().enumerate() {
        let progs = progs.clone();
        specs.push(ThreadSpec {
            phase: t.phase,
            stack: (t.stack_kib.max(64) as usize) << 10,
            name: "worker",
            body: Arc::new(move |tid| interp::run_thread::<M>(tid, world, &progs[i])),
        });
    }
    let nobj_guess = desc.threads.iter().map(|t| t.ops.len() + t.tls_ops.len()).sum::<usize>() as u64;
    let max_rounds = if cfg.janitor_rounds > 0 { cfg.janitor_rounds as u64 } else { 8 * (nobj_guess + 8) };
    specs.push(ThreadSpec {
        phase: max_phase + 1,
        stack: if cfg.janitor_stack_kib != 0 { (cfg.janitor_stack_kib as usize) << 10 } else { 2 << 20 },
        name: "janitor",
        body: Arc::new(move |tid| {
            let rounds = interp::run_janitor::<M>(tid, world, max_rounds);
            set_extra("janitor_rounds", rounds);
            shadow::shadow().janitor_rounds_done = rounds;
        }),
    });
    let sc = sim_config(desc, n + 1);
    sched::run(sc, Box::new(shadow::RcMonitor), specs, Some(clock));
    finish_interp(desc, max_rounds)
}

fn finish_interp(desc: &RunDesc, max_rounds: u64) -> ! {
    let s = sim();
    let sh = shadow();
    sh.check_quiescence(max_rounds);
    if desc.cfg.quarantine && !sh.ebr.bag_lost_to_panic && sh.ebr.clock_moved_since_janitor_start() >= 10 {
        // C18 "removed entries are unlinked and freed exactly once" / C20 "without leaking":
        // the records of participants that were finalized before the final rounds began. The
        // clock has moved ten times since, so ten complete scans of the registry were made (a scan
        // unlinks every removed entry it meets and defers its release) and everything deferred
        // during the first ones has expired and been collected by the later ones.
        let unfreed = sh.ebr.unfreed_records();
        if !unfreed.is_empty() {
            let tls = unfreed.iter().filter(|a| sh.ebr.tls_locals.contains(a)).count();
            let det = format!("{} participant record(s) finalized before the final collection rounds were never freed ({} of them temporary registrations made from thread-local destructors), although the clock advanced {} times during those rounds", unfreed.len(), tls, sh.ebr.clock_moved_since_janitor_start());
            sh.soft(if tls > 0 { "C20,C18" } else { "C18,C20" }, "participant-record-never-freed", det);
        }
        sim().probe("participant_records_checked");
    }
    if desc.cfg.quarantine {
        if let Some(a) = alloc::verify_poison() {
            let det = format!("freed memory at {:#x} was written after it was freed", a);
            sh.soft(&desc.prop, "write-after-free", det);
        }
        if alloc::RING_OVERFLOW.load(SeqCst) {
            s.harness_error("dealloc ring overflow");
        }
    }
    if desc.cfg.lin != 0 {
        crate::lin::check_history(sh);
    }
    let outcome = match sh.soft.first() {
        Some(f) => Outcome::Violation(Violation { prop: f.prop.clone(), kind: "soft".into(), signature: f.signature.clone(), detail: f.detail.clone(), seq: f.seq }),
        None => Outcome::Ok,
    };
    s.finish(outcome)
}

/// Entry point in the forked child: never returns.
pub fn run_in_child(desc: &RunDesc) -> ! {
    unsafe {
        libc::alarm(60);
        if std::env::var_os("VERIF_CHILD_STDERR").is_none() {
            let fd = libc::open(b"/dev/null\0".as_ptr() as *const libc::c_char, libc::O_WRONLY);
            if fd >= 0 {
                libc::dup2(fd, 2);
            }
        }
    }
    match desc.family.as_str() {
        "queue" => crate::fam_queue::run(desc),
        "list" => crate::fam_list::run(desc),
        "client" => crate::fam_client::run(desc),
        "ebr-private" => crate::fam_ebr::run_private(desc),
        "chain" | "chain-stack" | "chain-weak" | "chain-mid" => crate::fam_chain::run(desc),
        _ => {
            if desc.cfg.align == 32 {
                run_interp::<A32>(desc)
            } else {
                run_interp::<A8>(desc)
            }
        }
    }
}

#[derive(Clone, Debug)]
pub enum Res {
    Ok,
    Violation,
    StepCap,
    HarnessError,
    Crash(i32),
    Timeout,
}

pub struct RunResult {
    pub res: Res,
    pub json: J,
    pub sched: Vec<(u32, u32, u32, u32)>,
    pub buggify: Vec<u64>,
}

impl RunResult {
    pub fn signature(&self) -> String {
        match &self.res {
            Res::Violation => self.json.gets("signature").to_string(),
            Res::Crash(sig) => match self.json.get("panic_at").and_then(|x| x.as_str()) {
                Some(at) => format!("{}/abort-after-panic/{}", self.json.gets("prop"), at),
                None if !self.json.gets("crash_tag").is_empty() => format!("{}/crash/{}", self.json.gets("prop"), self.json.gets("crash_tag")),
                None => format!("{}/crash/signal-{}", self.json.gets("prop"), sig),
            },
            Res::StepCap => format!("{}/step-cap", self.json.gets("prop")),
            _ => String::new(),
        }
    }
    pub fn props(&self) -> Vec<String> {
        let v: Vec<String> = self.json.geta("props").iter().filter_map(|x| x.as_str().map(|s| s.to_string())).collect();
        if v.is_empty() {
            vec![self.json.gets("prop").to_string()]
        } else {
            v
        }
    }
}

/// Run the description in another build of the simulator (the `dev` profile binary: opt-level 0,
/// what `cargo test` users get) and parse what it prints.
fn exec_run(desc: &RunDesc, bin: &str) -> RunResult {
    let dir = format!("{}/target/tmp", crate::check::home());
    let _ = std::fs::create_dir_all(&dir);
    let path = format!("{}/runone-{}-{}.json", dir, std::process::id(), desc.seed);
    let mut d = desc.clone();
    if let J::Obj(m) = &mut d.params {
        m.insert("profile".into(), J::Str("sim".into()));
    }
    let _ = std::fs::write(&path, d.to_json().to_string());
    let out = std::process::Command::new(bin).arg("runone").arg(&path).output();
    let _ = std::fs::remove_file(&path);
    match out {
        Ok(o) => {
            let txt = String::from_utf8_lossy(&o.stdout);
            match J::parse(txt.trim()) {
                Ok(j) => {
                    let res = match j.gets("res") {
                        "ok" => Res::Ok,
                        "violation" => Res::Violation,
                        "stepcap" => Res::StepCap,
                        "timeout" => Res::Timeout,
                        "harness_error" => Res::HarnessError,
                        _ => Res::Crash(j.geti("signal") as i32),
                    };
                    let mut json = j.get("json").cloned().unwrap_or(J::obj());
                    json.put("crash_tag", desc.params.gets("crash_tag"));
                    RunResult { res, json, sched: Vec::new(), buggify: Vec::new() }
                }
                Err(e) => RunResult { res: Res::HarnessError, json: J::obj().set("detail", format!("runone output unparsable: {}", e)), sched: Vec::new(), buggify: Vec::new() },
            }
        }
        Err(e) => RunResult { res: Res::HarnessError, json: J::obj().set("detail", format!("cannot exec {}: {}", bin, e)), sched: Vec::new(), buggify: Vec::new() },
    }
}

/// `circ-sim runone <file>`: run one description (forked) and print the result as JSON.
pub fn runone(path: &str) -> i32 {
    let Some(desc) = std::fs::read_to_string(path).ok().and_then(|t| J::parse(&t).ok()).and_then(|j| RunDesc::from_json(&j)) else { return 2 };
    let r = fork_run(&desc);
    let (res, sig) = match &r.res {
        Res::Ok => ("ok", 0),
        Res::Violation => ("violation", 0),
        Res::StepCap => ("stepcap", 0),
        Res::HarnessError => ("harness_error", 0),
        Res::Timeout => ("timeout", 0),
        Res::Crash(s) => ("crash", *s),
    };
    println!("{}", J::obj().set("res", res).set("signal", sig).set("json", r.json.clone()).to_string());
    0
}

pub fn dev_bin() -> String {
    format!("{}/target/debug/circ-sim", crate::check::home())
}

/// Parent side: fork a child for this run and collect what it reports.
pub fn fork_run(desc: &RunDesc) -> RunResult {
    if desc.params.gets("profile") == "dev" {
        if std::path::Path::new(&dev_bin()).exists() {
            return exec_run(desc, &dev_bin());
        }
        // no dev build available: run in this build and say so
        let mut d = desc.clone();
        if let J::Obj(m) = &mut d.params {
            m.insert("profile".into(), J::Str("sim".into()));
            m.insert("dev_binary_missing".into(), J::Bool(true));
        }
        return fork_run(&d);
    }
    shm::reset();
    unsafe {
        let pid = libc::fork();
        assert!(pid >= 0, "fork failed");
        if pid == 0 {
            run_in_child(desc);
        }
        let mut status = 0i32;
        loop {
            let r = libc::waitpid(pid, &mut status, 0);
            if r == pid {
                break;
            }
            if r < 0 && *libc::__errno_location() != libc::EINTR {
                break;
            }
        }
        let sched = shm::read_sched();
        let buggify = shm::read_bug();
        if let Some(txt) = shm::read_result() {
            let json = J::parse(&txt).unwrap_or_else(|e| J::obj().set("outcome", "harness_error").set("detail", format!("bad result json: {}", e)));
            let res = match json.gets("outcome") {
                "ok" => Res::Ok,
                "violation" => Res::Violation,
                "stepcap" => Res::StepCap,
                _ => Res::HarnessError,
            };
            let mut json = json;
            if matches!(res, Res::StepCap) {
                json.put("prop", desc.prop.as_str());
            }
            return RunResult { res, json, sched, buggify };
        }
        let (res, what) = if libc::WIFSIGNALED(status) {
            let sig = libc::WTERMSIG(status);
            if sig == libc::SIGALRM {
                (Res::Timeout, "wall-clock backstop".to_string())
            } else {
                (Res::Crash(sig), format!("child killed by signal {}", sig))
            }
        } else {
            (Res::Crash(-libc::WEXITSTATUS(status)), format!("child exited with status {} without a result", libc::WEXITSTATUS(status)))
        };
        let mut json = J::obj().set("outcome", "crash").set("prop", desc.prop.as_str());
        let mut what = what;
        if let Some(p) = shm::read_panic() {
            // a panic that could not unwind (thread-local destructor, nested panic): say where
            let loc = p.split(" :: ").next().unwrap_or("").to_string();
            let rel = match loc.find("/src/") {
                Some(i) if !loc.starts_with("/rustc/") => loc[i + 1..].to_string(),
                _ => loc.clone(),
            };
            let short = rel.split(':').take(2).collect::<Vec<_>>().join(":");
            what = format!("{}; panic before the abort: {}", what, p);
            json.put("panic_at", short);
            // a panic that cannot unwind: thread-local destructor context (C20) or nested panic
            let mut props = vec![J::Str("C20".into())];
            if desc.prop != "C20" {
                props.push(J::Str(desc.prop.clone()));
            }
            json.put("props", J::Arr(props));
            json.put("panic_in_library", loc.starts_with('/'));
        }
        json.put("detail", what);
        json.put("crash_tag", desc.params.gets("crash_tag"));
        RunResult { res, json, sched, buggify }
    }
}
