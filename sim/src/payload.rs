//! The reference-counted payload type the workloads use: a graph node with two strong edges,
//! one weak edge and one plain `Rc` field, reporting its own `pop_edges` and `drop`.

use std::cell::UnsafeCell;
use std::sync::atomic::{AtomicU64, AtomicU8, Ordering::*};

use circ::{AtomicRc, AtomicWeak, Rc, RcObject};

pub const CANARY: u64 = 0xC1AC_0DE5_AFE0_0D1E;
pub const CANARY_DEAD: u64 = 0xDEAD_DEAD_DEAD_DEAD;

/// pop_edges policy for this run: 0 = all edges, 1 = first edge only, 2 = none, 3 = all edges, each passed through with_tag(0)
pub static POP_POLICY: AtomicU8 = AtomicU8::new(0);
/// destructor re-enters the API (pins, flushes) while running inside collection
pub static DTOR_API: AtomicU8 = AtomicU8::new(0);

#[repr(align(8))]
#[derive(Default)]
pub struct A8;
#[repr(align(32))]
#[derive(Default)]
pub struct A32;

pub trait AlignMarker: Default + Send + Sync + 'static {
    const NAME: &'static str;
}
impl AlignMarker for A8 {
    const NAME: &'static str = "a8";
}
impl AlignMarker for A32 {
    const NAME: &'static str = "a32";
}

pub struct Node<M: AlignMarker> {
    _align: [M; 0],
    pub canary: AtomicU64,
    pub id: u64,
    pub val: u64,
    pub next: [AtomicRc<Node<M>>; 2],
    pub wlink: AtomicWeak<Node<M>>,
    /// a strong owner that is *not* an `AtomicRc` edge: released by `Rc::drop` inside the
    /// payload destructor (set only before the node is shared)
    pub extra: UnsafeCell<Rc<Node<M>>>,
}

unsafe impl<M: AlignMarker> Send for Node<M> {}
unsafe impl<M: AlignMarker> Sync for Node<M> {}

impl<M: AlignMarker> Node<M> {
    pub fn new(id: u64) -> Self {
        Node {
            _align: [],
            canary: AtomicU64::new(CANARY),
            id,
            val: id.wrapping_mul(0x9E37_79B9_7F4A_7C15),
            next: [AtomicRc::null(), AtomicRc::null()],
            wlink: AtomicWeak::null(),
            extra: UnsafeCell::new(Rc::null()),
        }
    }
    pub fn check(&self) -> bool {
        self.canary.load(Relaxed) == CANARY && self.val == self.id.wrapping_mul(0x9E37_79B9_7F4A_7C15)
    }
}

unsafe impl<M: AlignMarker> RcObject for Node<M> {
    fn pop_edges(&mut self, out: &mut Vec<Rc<Self>>) {
        let cells = [
            circ::verif::atomic_rc_addr(&self.next[0]),
            circ::verif::atomic_rc_addr(&self.next[1]),
        ];
        let extra = circ::verif::rc_word(unsafe { &*self.extra.get() });
        let node_addr = self as *const Self as usize;
        let block = node_addr - crate::interp::circ_inner::data_offset();
        crate::shadow::hook_pop_edges(self.id, cells, extra, block, circ::verif::state_addr::<Self>(block));
        // user code may take any time: other threads get a turn while the library is in the
        // middle of destructing this object
        crate::sched::inner_yield();
        match POP_POLICY.load(Relaxed) {
            0 => {
                out.push(self.next[0].take());
                out.push(self.next[1].take());
            }
            1 => out.push(self.next[0].take()),
            3 => {
                // as a Harris list does: the deletion mark is stripped from the edges handed back
                out.push(self.next[0].take().with_tag(0));
                out.push(self.next[1].take().with_tag(0));
            }
            _ => {}
        }
    }
}

impl<M: AlignMarker> Drop for Node<M> {
    fn drop(&mut self) {
        let wcell = circ::verif::atomic_weak_addr(&self.wlink);
        crate::shadow::hook_drop(self.id, wcell);
        if crate::shadow::installed() {
            // stack span over which payload destructors of this thread have run (nesting depth)
            let probe = 0u8;
            crate::shadow::shadow().note_dtor_stack(crate::sched::my_tid(), &probe as *const u8 as usize);
        }
        self.canary.store(CANARY_DEAD, Relaxed);
        crate::sched::inner_yield();
        let api = DTOR_API.load(Relaxed);
        if api == 4 && crate::shadow::installed() && crate::sched::my_tid() != crate::sched::NONE {
            // the destructor releases its plain-Rc link itself and then flushes: garbage made by
            // garbage, handed over from inside the collection that runs this destructor
            let e = std::mem::replace(unsafe { &mut *self.extra.get() }, Rc::null());
            drop(e);
            let g = circ::cs();
            g.flush();
            drop(g);
            return;
        }
        if api != 0 && crate::shadow::installed() && crate::sched::my_tid() != crate::sched::NONE {
            // legal re-entry from a destructor that runs inside collection
            let g = circ::cs();
            if api == 2 {
                let g2 = circ::cs();
                g2.flush();
                drop(g2);
            }
            if api >= 3 {
                // C16 from within a destructor: further guards created (and dropped) while `g` is
                // live must not move the announced epoch, whatever other threads do meanwhile
                let l1 = circ::verif::local_of(&g);
                let e1 = l1.epoch_word;
                for round in 0..2 {
                    crate::sched::inner_yield();
                    let g2 = circ::cs();
                    let l2 = circ::verif::local_of(&g2);
                    let e2 = l2.epoch_word;
                    // (during thread-local destruction every cs() registers a participant of its
                    // own; only guards of the same participant are nested)
                    if l2.local == l1.local && e2 != e1 {
                        crate::shadow::shadow().soft(
                            "C16",
                            "nested-pin-in-destructor-changed-epoch",
                            format!("destructor of #{} (running inside collection) holds a guard announced at epoch word {:#x}; creating nested guard {} changed it to {:#x}", self.id, e1, round, e2),
                        );
                    }
                    crate::sched::sim().probe("nested_pin_in_destructor");
                    drop(g2);
                }
            }
            drop(g);
        }
    }
}
