//! The reference-counted payload type the workloads use: a graph node with two strong edges,
//! one weak edge and one plain `Rc` field, reporting its own `pop_edges` and `drop`.

use std::cell::UnsafeCell;
use std::sync::atomic::{AtomicU64, AtomicU8, Ordering::*};

use circ::{AtomicRc, AtomicWeak, Rc, RcObject};

pub const CANARY: u64 = 0xC1AC_0DE5_AFE0_0D1E;
pub const CANARY_DEAD: u64 = 0xDEAD_DEAD_DEAD_DEAD;

/// pop_edges policy for this run: 0 = all edges, 1 = first edge only, 2 = none
pub static POP_POLICY: AtomicU8 = AtomicU8::new(0);
/// destructor re-enters the API (pins, flushes) while running inside collection
pub static DTOR_API: AtomicU8 = AtomicU8::new(0);

#[repr(align(8))]
#[derive(Default)]
pub struct A8;
#[repr(align(32))]
#[derive(Default)]
pub struct A32;

pub trait AlignMarker: Default + Send + Sync + 'static {
    const NAME: &'static str;
}
impl AlignMarker for A8 {
    const NAME: &'static str = "a8";
}
impl AlignMarker for A32 {
    const NAME: &'static str = "a32";
}

pub struct Node<M: AlignMarker> {
    _align: [M; 0],
    pub canary: AtomicU64,
    pub id: u64,
    pub val: u64,
    pub next: [AtomicRc<Node<M>>; 2],
    pub wlink: AtomicWeak<Node<M>>,
    /// a strong owner that is *not* an `AtomicRc` edge: released by `Rc::drop` inside the
    /// payload destructor (set only before the node is shared)
    pub extra: UnsafeCell<Rc<Node<M>>>,
}

unsafe impl<M: AlignMarker> Send for Node<M> {}
unsafe impl<M: AlignMarker> Sync for Node<M> {}

impl<M: AlignMarker> Node<M> {
    pub fn new(id: u64) -> Self {
        Node {
            _align: [],
            canary: AtomicU64::new(CANARY),
            id,
            val: id.wrapping_mul(0x9E37_79B9_7F4A_7C15),
            next: [AtomicRc::null(), AtomicRc::null()],
            wlink: AtomicWeak::null(),
            extra: UnsafeCell::new(Rc::null()),
        }
    }
    pub fn check(&self) -> bool {
        self.canary.load(Relaxed) == CANARY && self.val == self.id.wrapping_mul(0x9E37_79B9_7F4A_7C15)
    }
}

unsafe impl<M: AlignMarker> RcObject for Node<M> {
    fn pop_edges(&mut self, out: &mut Vec<Rc<Self>>) {
        let cells = [
            circ::verif::atomic_rc_addr(&self.next[0]),
            circ::verif::atomic_rc_addr(&self.next[1]),
        ];
        let extra = circ::verif::rc_word(unsafe { &*self.extra.get() });
        let node_addr = self as *const Self as usize;
        let block = node_addr - crate::interp::circ_inner::data_offset();
        crate::shadow::hook_pop_edges(self.id, cells, extra, block, circ::verif::state_addr::<Self>(block));
        match POP_POLICY.load(Relaxed) {
            0 => {
                out.push(self.next[0].take());
                out.push(self.next[1].take());
            }
            1 => out.push(self.next[0].take()),
            _ => {}
        }
    }
}

impl<M: AlignMarker> Drop for Node<M> {
    fn drop(&mut self) {
        let wcell = circ::verif::atomic_weak_addr(&self.wlink);
        crate::shadow::hook_drop(self.id, wcell);
        self.canary.store(CANARY_DEAD, Relaxed);
        if DTOR_API.load(Relaxed) != 0 {
            // legal re-entry from a destructor that runs inside collection
            let g = circ::cs();
            if DTOR_API.load(Relaxed) >= 2 {
                let g2 = circ::cs();
                g2.flush();
                drop(g2);
            }
            drop(g);
        }
    }
}
