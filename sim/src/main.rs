#![allow(dead_code)]
mod alloc;
mod c12;
mod closures;
mod ebrmon;
mod fam_chain;
mod fam_list;
mod fam_queue;
mod gen;
mod interp;
mod json;
mod lin;
mod ops;
mod payload;
mod rng;
mod runner;
mod sched;
mod shadow;
mod shm;

#[global_allocator]
static GLOBAL: alloc::Quarantine = alloc::Quarantine;

fn main() {
    let args: Vec<String> = std::env::args().collect();
    alloc::reserve();
    shm::create();
    match args.get(1).map(|s| s.as_str()) {
        Some("one") => {
            let prof = match args.get(2).map(|s| s.as_str()).unwrap_or("mixed") {
                "weak" => gen::Profile::Weak,
                "cells" => gen::Profile::Cells,
                "wcells" => gen::Profile::WCells,
                "bulk" => gen::Profile::Bulk,
                "ebr" => gen::Profile::Ebr,
                "guards" => gen::Profile::Guards,
                "tls" => gen::Profile::Tls,
                _ => gen::Profile::Mixed,
            };
            let s0: u64 = args.get(3).and_then(|s| s.parse().ok()).unwrap_or(1);
            let n: u64 = args.get(4).and_then(|s| s.parse().ok()).unwrap_or(1);
            let t0 = std::time::Instant::now();
            let mut counts = std::collections::BTreeMap::new();
            for seed in s0..s0 + n {
                let desc = gen::gen_interp_run("C01", "rcgen", seed, prof);
                let r = runner::fork_run(&desc);
                let key = match &r.res {
                    runner::Res::Ok => "ok".to_string(),
                    runner::Res::Violation => format!("V {}", r.json.gets("signature")),
                    other => format!("{:?} {}", other, r.json.gets("detail")),
                };
                if n == 1 {
                    println!("{}", desc.to_json().pretty());
                    println!("{}", r.json.pretty());
                } else if !matches!(r.res, runner::Res::Ok) && *counts.get(&key).unwrap_or(&0) < 1 {
                    println!("seed {} -> {} :: {}", seed, key, r.json.gets("detail"));
                }
                *counts.entry(key).or_insert(0u64) += 1;
            }
            println!("{:?} in {:?}", counts, t0.elapsed());
        }
        _ => {
            eprintln!("usage: circ-sim one <profile> <seed> [n]");
            std::process::exit(2);
        }
    }
}
