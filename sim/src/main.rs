#![allow(dead_code)]
mod alloc;
mod c12;
mod check;
mod closures;
mod dir;
mod ebrmon;
mod fam_chain;
mod fam_client;
mod fam_list;
mod fam_queue;
mod fam_sweep;
mod fam_ebr;
mod minimize;
mod gen;
mod interp;
mod json;
mod lin;
mod ops;
mod payload;
mod rng;
mod runner;
mod sched;
mod shadow;
mod shm;

#[global_allocator]
static GLOBAL: alloc::Quarantine = alloc::Quarantine;

fn main() {
    let args: Vec<String> = std::env::args().collect();
    alloc::reserve();
    shm::create();
    match args.get(1).map(|s| s.as_str()) {
        Some("one") => {
            let prof = match args.get(2).map(|s| s.as_str()).unwrap_or("mixed") {
                "weak" => gen::Profile::Weak,
                "cells" => gen::Profile::Cells,
                "wcells" => gen::Profile::WCells,
                "bulk" => gen::Profile::Bulk,
                "ebr" => gen::Profile::Ebr,
                "guards" => gen::Profile::Guards,
                "tls" => gen::Profile::Tls,
                _ => gen::Profile::Mixed,
            };
            let s0: u64 = args.get(3).and_then(|s| s.parse().ok()).unwrap_or(1);
            let n: u64 = args.get(4).and_then(|s| s.parse().ok()).unwrap_or(1);
            let t0 = std::time::Instant::now();
            let mut counts = std::collections::BTreeMap::new();
            for seed in s0..s0 + n {
                let desc = gen::gen_interp_run("C01", "rcgen", seed, prof);
                let r = runner::fork_run(&desc);
                let key = match &r.res {
                    runner::Res::Ok => "ok".to_string(),
                    runner::Res::Violation => format!("V {}", r.json.gets("signature")),
                    other => format!("{:?} {}", other, r.json.gets("detail")),
                };
                if n == 1 {
                    println!("{}", desc.to_json().pretty());
                    println!("{}", r.json.pretty());
                } else if !matches!(r.res, runner::Res::Ok) && *counts.get(&key).unwrap_or(&0) < 1 {
                    println!("seed {} -> {} :: {}", seed, key, r.json.gets("detail"));
                }
                *counts.entry(key).or_insert(0u64) += 1;
            }
            println!("{:?} in {:?}", counts, t0.elapsed());
        }
        Some("check") => {
            let prop = args.get(2).cloned().unwrap_or_default();
            let tier = args.get(3).cloned().unwrap_or_else(|| std::env::var("VERIF_TIER").unwrap_or_else(|_| "quick".into()));
            std::process::exit(check::main_check(&prop, &tier));
        }
        Some("selftest") => {
            // determinism on a sample: every family, each seed twice, same event hash
            let n: u64 = args.get(2).and_then(|s| s.parse().ok()).unwrap_or(8);
            let fams = ["rc-mixed", "rc-weak", "rc-cells", "rc-wcells", "rc-bulk", "ebr", "ebr-churn", "ebr-longcs", "ebr-private", "guards", "tls", "dir-t1", "dir-t2", "dir-t3", "dir-t4", "dir-t5", "dir-t6", "dir-t7", "dir-t8", "dir-t9", "dir-t10", "dir-t11", "dir-t12", "dir-t13", "dir-b", "dir-t14", "dir-t15", "dir-t16", "dir-t17", "dir-t18", "dir-t19", "dir-w", "dir-c", "client", "queue", "list", "chain", "chain-weak", "chain-mid", "agesweep"];
            let mut bad = 0;
            let mut total = 0;
            for f in fams {
                for seed in 1..=n {
                    let desc = gen::generate("C01", f, rng::mix(&[seed, rng::hash_str(f)]));
                    let a = runner::fork_run(&desc);
                    let b = runner::fork_run(&desc);
                    total += 1;
                    if a.json.getu("hash") != b.json.getu("hash") || a.json.getu("steps") != b.json.getu("steps") || a.signature() != b.signature() {
                        bad += 1;
                        eprintln!("selftest: nondeterminism in family {} seed {}: {} / {}", f, seed, a.json.getu("hash"), b.json.getu("hash"));
                    }
                    if matches!(a.res, runner::Res::HarnessError | runner::Res::Timeout) {
                        bad += 1;
                        eprintln!("selftest: harness error in family {} seed {}: {}", f, seed, a.json.gets("detail"));
                    }
                }
            }
            println!("selftest: {} descriptions run twice, {} problems", total, bad);
            std::process::exit(if bad == 0 { 0 } else { 2 });
        }
        Some("runone") => {
            std::process::exit(runner::runone(args.get(2).map(|s| s.as_str()).unwrap_or("")));
        }
        Some("replay") => {
            std::process::exit(minimize::replay(args.get(2).map(|s| s.as_str()).unwrap_or("")));
        }
        Some("minimize") => {
            let path = args.get(2).cloned().unwrap_or_default();
            let j = json::J::parse(&std::fs::read_to_string(&path).expect("read")).expect("json");
            let desc = ops::RunDesc::from_json(&j).expect("desc");
            let sig = j.get("expected").map(|e| e.gets("signature").to_string()).unwrap_or_default();
            let budget: f64 = args.get(3).and_then(|s| s.parse().ok()).unwrap_or(45.0);
            let (best, res, tries, ok) = minimize::minimize(desc, &sig, json::J::Null, budget);
            println!("reproduced={} tries={} threads={} ops={} segments={}", ok, tries, best.threads.len(), best.threads.iter().map(|t| t.ops.len() + t.tls_ops.len()).sum::<usize>(), best.schedule.as_ref().map(|s| s.len()).unwrap_or(0));
            for t in &best.threads {
                println!("  phase {} {}: {}", t.phase, t.name, t.ops.iter().map(|o| format!("{}({},{},{},{})", o.k.name(), o.a, o.b, o.c, o.d)).collect::<Vec<_>>().join(" "));
            }
            println!("  schedule: {:?}", best.schedule);
            println!("  {}", res.gets("detail"));
            if let Some(t) = res.get("trace_tail") {
                println!("  trace: {}", t.as_arr().map(|a| a.iter().filter_map(|x| x.as_str()).collect::<Vec<_>>().join(" ")).unwrap_or_default());
            }
        }
        Some("rerun") => {
            // circ-sim rerun <file> <n> [noschedule]: run a description repeatedly, show outcome distribution
            let path = args.get(2).cloned().unwrap_or_default();
            let j = json::J::parse(&std::fs::read_to_string(&path).expect("read")).expect("json");
            let mut desc = ops::RunDesc::from_json(&j).expect("desc");
            let n: u64 = args.get(3).and_then(|s| s.parse().ok()).unwrap_or(10);
            if args.get(4).map(|s| s.as_str()) == Some("noschedule") {
                desc.schedule = None;
                desc.buggify_script = None;
            }
            let mut counts = std::collections::BTreeMap::new();
            for _ in 0..n {
                let r = runner::fork_run(&desc);
                let key = format!("{:?} sig={} steps={} hash={}", r.res, r.signature(), r.json.getu("steps"), r.json.getu("hash"));
                *counts.entry(key).or_insert(0u64) += 1;
            }
            for (k, v) in counts {
                println!("{:6} x {}", v, k);
            }
        }
        Some("famfind") => {
            // circ-sim famfind <property> <family> <seed0> <n> <signature> <out.json>: first run of the family
            // that shows <signature>, minimised, written as a replay file (for findings/ on a pre-fix tree)
            let prop = args.get(2).cloned().unwrap_or_default();
            let fam = args.get(3).cloned().unwrap_or_default();
            let s0: u64 = args.get(4).and_then(|s| s.parse().ok()).unwrap_or(1);
            let n: u64 = args.get(5).and_then(|s| s.parse().ok()).unwrap_or(1);
            let want = args.get(6).cloned().unwrap_or_default();
            let out = args.get(7).cloned().unwrap_or_default();
            for seed in s0..s0 + n {
                let desc = gen::generate(&prop, &fam, seed);
                let r = runner::fork_run(&desc);
                let mut sigs = vec![r.signature()];
                if let Some(e) = r.json.get("extra") {
                    for s in e.geta("soft") {
                        sigs.push(s.gets("signature").to_string());
                    }
                }
                if sigs.iter().any(|s| *s == want) {
                    let first = check::first_record(&desc, &r, &want, vec![prop.clone()], r.json.gets("detail"));
                    let _ = std::fs::create_dir_all(format!("{}/replays", check::home()));
                    let path = minimize::report(&prop, &want, &first);
                    let _ = std::fs::copy(&path, &out);
                    println!("seed {}: {} -> {}", seed, want, out);
                    std::process::exit(0);
                }
            }
            println!("not found in {} runs", n);
            std::process::exit(1);
        }
        Some("fam") => {
            // circ-sim fam <property> <family> <seed0> <n>: run one family, print a summary
            let prop = args.get(2).cloned().unwrap_or_default();
            let fam = args.get(3).cloned().unwrap_or_default();
            let s0: u64 = args.get(4).and_then(|s| s.parse().ok()).unwrap_or(1);
            let n: u64 = args.get(5).and_then(|s| s.parse().ok()).unwrap_or(1);
            let t0 = std::time::Instant::now();
            let mut counts = std::collections::BTreeMap::new();
            for seed in s0..s0 + n {
                let desc = gen::generate(&prop, &fam, seed);
                let r = runner::fork_run(&desc);
                let mut keys = vec![match &r.res {
                    runner::Res::Ok => "ok".to_string(),
                    runner::Res::Violation => format!("V {}", r.json.gets("signature")),
                    other => format!("{:?} {}", other, r.json.gets("detail")),
                }];
                if let Some(e) = r.json.get("extra") {
                    for s in e.geta("soft").iter().skip(1) {
                        keys.push(format!("V {}", s.gets("signature")));
                    }
                }
                if n == 1 {
                    println!("{}", desc.to_json().pretty());
                    println!("{}", r.json.pretty());
                }
                for key in keys {
                    if n > 1 && key != "ok" && !counts.contains_key(&key) {
                        println!("seed {} -> {} :: {}", seed, key, r.json.gets("detail"));
                    }
                    *counts.entry(key).or_insert(0u64) += 1;
                }
            }
            println!("{:?} in {:?}", counts, t0.elapsed());
        }
        _ => {
            eprintln!("usage: circ-sim check <property> [quick|thorough] | replay <file> | fam <property> <family> <seed0> <n> | one <profile> <seed> [n]");
            std::process::exit(2);
        }
    }
}
