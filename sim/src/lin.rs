//! Linearizability check (Wing–Gong/Lowe style search with memoisation) of the recorded
//! invoke/return history of each AtomicRc / AtomicWeak cell against the sequential
//! specification of a (pointer, tag) cell.

use std::collections::{BTreeMap, HashSet};

use crate::interp::HistEv;
use crate::ops::K;
use crate::sched::sim;
use crate::shadow::Shadow;

type V = (u32, usize);

/// Apply `e` to the sequential cell in state `s`; None if its recorded result is impossible.
fn apply(s: V, e: &HistEv) -> Option<V> {
    match e.kind {
        K::Load | K::LoadW => (e.output == s).then_some(s),
        K::Store | K::StoreW => Some(e.input),
        K::Swap | K::SwapW => (e.output == s).then_some(e.input),
        K::Cas | K::CasW => {
            if e.ok {
                (s == e.expected && e.output == s).then_some(e.input)
            } else if e.output != s {
                None
            } else if s == e.expected && !e.weak_cas {
                // a strong compare_exchange must not fail when pointer and tag match
                None
            } else {
                Some(s)
            }
        }
        K::CasTag | K::CasTagW => {
            if e.ok {
                (s == e.expected && e.output == s).then_some((s.0, e.input.1))
            } else if e.output != s || s == e.expected {
                None
            } else {
                Some(s)
            }
        }
        _ => Some(s),
    }
}

pub fn linearizable(ops: &[HistEv]) -> bool {
    let n = ops.len();
    if n == 0 {
        return true;
    }
    assert!(n <= 63);
    let full: u64 = if n == 64 { u64::MAX } else { (1u64 << n) - 1 };
    let mut seen: HashSet<(u64, V)> = HashSet::new();
    let mut stack: Vec<(u64, V)> = vec![(0, (0, 0))];
    while let Some((mask, st)) = stack.pop() {
        if mask == full {
            return true;
        }
        if !seen.insert((mask, st)) {
            continue;
        }
        // earliest return among pending ops bounds which ops may go first
        let mut min_ret = u64::MAX;
        for (i, e) in ops.iter().enumerate() {
            if mask & (1 << i) == 0 && e.ret < min_ret {
                min_ret = e.ret;
            }
        }
        for (i, e) in ops.iter().enumerate() {
            if mask & (1 << i) != 0 || e.inv > min_ret {
                continue;
            }
            if let Some(ns) = apply(st, e) {
                stack.push((mask | (1 << i), ns));
            }
        }
    }
    false
}

fn fmt_v(v: V) -> String {
    if v.0 == 0 {
        format!("null^{}", v.1)
    } else {
        format!("#{}^{}", v.0 - 1, v.1)
    }
}

pub fn fmt_ev(e: &HistEv) -> String {
    let r = match e.kind {
        K::Load | K::LoadW => format!("-> {}", fmt_v(e.output)),
        K::Store | K::StoreW => format!("({})", fmt_v(e.input)),
        K::Swap | K::SwapW => format!("({}) -> {}", fmt_v(e.input), fmt_v(e.output)),
        _ => format!(
            "(exp {}, new {}{}) -> {} {}",
            fmt_v(e.expected),
            fmt_v(e.input),
            if e.weak_cas { ", weak" } else { "" },
            if e.ok { "Ok" } else { "Err cur" },
            fmt_v(e.output)
        ),
    };
    format!("t{} [{}..{}] {} {}", e.tid, e.inv, e.ret, e.kind.name(), r)
}

/// Check every cell's history; reports C08 (AtomicRc) / C09 (AtomicWeak) violations.
#[allow(static_mut_refs)]
pub fn check_history(sh: &mut Shadow) {
    let hist: &Vec<HistEv> = unsafe { &crate::interp::HISTORY };
    let mut by_cell: BTreeMap<usize, Vec<HistEv>> = BTreeMap::new();
    for e in hist {
        by_cell.entry(e.cell).or_default().push(e.clone());
    }
    let mut checked = 0u64;
    let mut skipped = 0u64;
    let mut maxlen = 0usize;
    let mut concurrent_pairs = 0u64;
    for (_, mut ops) in by_cell {
        ops.sort_by_key(|e| (e.inv, e.ret, e.tid));
        if ops.len() > 40 {
            skipped += 1;
            continue;
        }
        maxlen = maxlen.max(ops.len());
        for i in 0..ops.len() {
            for j in i + 1..ops.len() {
                if ops[i].tid != ops[j].tid && ops[j].inv <= ops[i].ret && ops[i].inv <= ops[j].ret {
                    concurrent_pairs += 1;
                }
            }
        }
        checked += 1;
        if !linearizable(&ops) {
            let weak = ops[0].weak_cell;
            let prop = if weak { "C09" } else { "C08" };
            // classify the simplest explanation for known-finding matching: a sequentially
            // impossible single op (no overlap needed) vs a genuinely concurrent anomaly
            let mut sig = "not-linearizable".to_string();
            let mut st: V = (0, 0);
            let mut seq_ok = true;
            let sequential = ops.windows(2).all(|w| w[0].ret < w[1].inv);
            if sequential {
                for e in &ops {
                    match apply(st, e) {
                        Some(ns) => st = ns,
                        None => {
                            seq_ok = false;
                            if matches!(e.kind, K::Cas | K::CasW | K::CasTag | K::CasTagW) && !e.ok && st == e.expected {
                                sig = "cas-fails-on-equal".to_string();
                            }
                            break;
                        }
                    }
                }
            }
            let _ = seq_ok;
            let lines: Vec<String> = ops.iter().map(fmt_ev).collect();
            let det = format!("history of one {} is not linearizable as a (pointer, tag) cell: {}", if weak { "AtomicWeak" } else { "AtomicRc" }, lines.join(" | "));
            sh.soft(prop, &sig, det);
        }
    }
    crate::runner::set_extra("lin", crate::json::J::obj().set("cells_checked", checked).set("cells_skipped", skipped).set("max_history", maxlen).set("concurrent_pairs", concurrent_pairs).set("events", hist.len()));
    let _ = sim;
}
