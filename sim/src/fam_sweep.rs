//! AGE-SWEEP (C12): directed sweep of stamp ages at the real decision site. A grandparent G
//! (released by thread A whose deferred attempt stays in A's *local* bag until A flushes) owns
//! P, which owns C. Thread B writes the stamp under test at ticker round tB (drops an extra
//! owner of P or C, and/or rewrites the link P->C through P's extra owner), A flushes at round
//! tF, so the cascade from G runs about 3 rounds later and sees stamp ages from 0 to beyond
//! several wraps of the 4-bit field. The shadow model knows every stamp at full width; the
//! oracle in c12.rs judges each immediate/deferred decision.

use crate::gen::ticker_ops;
use crate::json::J;
use crate::ops::*;
use crate::rng::Rng;

fn o(k: K, a: u32, b: u32, c: u32, d: u32) -> Op {
    op(k, a, b, c, d)
}

pub fn gen(prop: &str, seed: u64) -> RunDesc {
    let mut rng = Rng::new(seed);
    let mut cfg = RunCfg::default();
    // no automatic flushing: bags stay local until the program says so
    cfg.max_objects = 64;
    cfg.manual_interval = 64;
    cfg.roots = 4;
    cfg.wroots = 1;
    cfg.strategy = 0;
    cfg.p_switch = *rng.pick(&[0.0, 0.02, 0.1]);
    cfg.start_epoch = match rng.below(8) {
        0 => rng.below(4),
        1 => (1u64 << 20) + rng.below(16),
        2 => (1u64 << 40) + rng.below(16),
        _ => rng.below(48),
    };
    // a third of the runs: pop_edges hands its edges back through with_tag(0), as a list that
    // strips deletion marks does; the stamp of the link travels in the same word
    if Rng::new(seed ^ 0xA6E).chance(0.35) {
        cfg.pop_policy = 3;
    }
    let total = 6 + rng.below(66) as u32; // ticker rounds
    let t_f = rng.below(total as u64) as u32;
    let t_b = rng.below((t_f + 5).min(total) as u64 + 1) as u32;
    let role = rng.below(7).min(5);
    // setup: G (class 1) -> P (class 2) -> C (class 3); extra owners of P in ROOT[0], of C in ROOT[2]; G in ROOT[1]
    let setup = vec![
        o(K::New, 0, NONE_SLOT, 1, 0),
        o(K::New, 1, NONE_SLOT, 2, 0),
        o(K::New, 2, NONE_SLOT, 3, 0),
        o(K::Pin, 0, 0, 0, 0),
        o(K::Clone, 2, 3, 0, 0),
        o(K::Store, 20, 3, 0, 0),  // ROOT[2] <- C (extra owner of C)
        o(K::Store, 110, 2, 0, 0), // P.next[0] <- C
        o(K::Clone, 1, 3, 0, 0),
        o(K::Store, 0, 3, 0, 0),   // ROOT[0] <- P (extra owner of P)
        o(K::Store, 100, 1, 0, 0), // G.next[0] <- P
        o(K::Store, 10, 0, 0, 0),  // ROOT[1] <- G
        o(K::New, 4, NONE_SLOT, 4, 0), // C2 (class 4), only used by the link-younger role
        o(K::Store, 30, 4, 0, 0),      // ROOT[3] <- C2
        o(K::Unpin, 0, 0, 0, 0),
    ];
    let mut threads = vec![ThreadProg::new(0, setup)];
    threads[0].name = "setup".into();
    // ticker: one round per tick, signalling 30+i after round i
    let mut tick = Vec::new();
    for i in 0..total {
        tick.extend(ticker_ops(1));
        tick.push(o(K::Signal, 30 + i, 0, 0, 0));
    }
    tick.extend(ticker_ops(8));
    let mut t = ThreadProg::new(1, tick);
    t.name = "ticker".into();
    threads.push(t);
    // A: releases G early (deferred attempt sits in A's local bag), flushes at tF
    let mut a = vec![o(K::Pin, 0, 0, 0, 0), o(K::Store, 10, NONE_SLOT, 0, 0), o(K::Unpin, 0, 0, 0, 0), o(K::Await, 30 + t_f, 0, 0, 0), o(K::Pin, 0, 0, 0, 0), o(K::Flush, 0, 0, 0, 0), o(K::Unpin, 0, 0, 0, 0)];
    if rng.chance(0.3) {
        a.insert(0, o(K::Await, 30 + rng.below(t_f as u64 + 1) as u32, 0, 0, 0));
    }
    let mut t = ThreadProg::new(1, a);
    t.name = "release-grandparent".into();
    threads.push(t);
    // B: writes the stamp(s) under test at tB
    let mut b = vec![o(K::Await, 30 + t_b, 0, 0, 0), o(K::Pin, 0, 0, 0, 0)];
    match role {
        0 => b.push(o(K::Store, 0, NONE_SLOT, 0, 0)), // P's own stamp (drops P's extra owner)
        1 => b.push(o(K::Store, 20, NONE_SLOT, 0, 0)), // C's own stamp
        2 => {
            // link P->C rewritten through P's extra owner, then both extra owners dropped
            b.extend([o(K::Load, 0, 0, 0, 0), o(K::Load, 200, 0, 1, 0), o(K::Counted, 1, 0, 0, 0), o(K::Store, 200, 0, 0, 0), o(K::Store, 0, NONE_SLOT, 0, 0)]);
        }
        3 => {
            // link rewritten by swap
            b.extend([o(K::Load, 0, 0, 0, 0), o(K::Load, 200, 0, 1, 0), o(K::Counted, 1, 0, 0, 0), o(K::Swap, 200, 0, 0, 0), o(K::DropRc, 0, 0, 0, 0), o(K::Store, 0, NONE_SLOT, 0, 0)]);
        }
        4 => {
            b.push(o(K::Store, 0, NONE_SLOT, 0, 0));
            b.push(o(K::Store, 20, NONE_SLOT, 0, 0));
        }
        _ => {
            // link strictly younger than the parent's own stamp: a writer that holds a Snapshot
            // of P rewrites P->C one epoch *after* P's last owner was dropped (signal 28)
            b = vec![o(K::Await, 28, 0, 0, 0), o(K::Pin, 0, 0, 0, 0), o(K::Store, 0, NONE_SLOT, 0, 0)];
        }
    }
    b.push(o(K::Unpin, 0, 0, 0, 0));
    if role == 5 {
        let t_w = (t_f + rng.below(5) as u32).saturating_sub(1).min(total.saturating_sub(2));
        let w = vec![
            // take a counted reference to C2 early; its other owner (ROOT[3]) is dropped early too,
            // so C2's own stamp is old when the link to it is written
            o(K::Pin, 0, 0, 0, 0),
            o(K::Load, 30, 0, 2, 0),
            o(K::Counted, 2, 1, 0, 0),
            o(K::Store, 30, NONE_SLOT, 0, 0),
            o(K::Unpin, 0, 0, 0, 0),
            o(K::Await, 30 + t_w, 0, 0, 0),
            o(K::Pin, 0, 0, 0, 0),
            o(K::Load, 0, 0, 0, 0),
            o(K::Signal, 28, 0, 0, 0),
            o(K::Await, 30 + t_w + 1, 0, 0, 0),
            o(K::Store, 200, 1, 0, 0),
            o(K::Unpin, 0, 0, 0, 0),
        ];
        let mut t = ThreadProg::new(1, w);
        t.name = "link-writer".into();
        threads.push(t);
    }
    let mut t = ThreadProg::new(1, b);
    t.name = "stamp-writer".into();
    threads.push(t);
    // the other extra owners go early (old stamps) or late (after the cascade)
    let early = rng.chance(0.6);
    let mut c = vec![];
    if !early {
        c.push(o(K::Await, 30 + (t_f + 6).min(total - 1), 0, 0, 0));
    }
    c.extend([o(K::Pin, 0, 0, 0, 0), o(K::Store, 20, NONE_SLOT, 0, 0), o(K::Store, 0, NONE_SLOT, 0, 0), o(K::Unpin, 0, 0, 0, 0)]);
    let mut t = ThreadProg::new(if early && role != 1 && role != 4 { 1 } else { 2 }, c);
    t.name = "other-owners".into();
    if early {
        // only the owner B does not handle
        t.ops = match role {
            0 | 2 | 3 | 5 => vec![o(K::Pin, 0, 0, 0, 0), o(K::Store, 20, NONE_SLOT, 0, 0), o(K::Unpin, 0, 0, 0, 0)],
            1 => vec![o(K::Pin, 0, 0, 0, 0), o(K::Store, 0, NONE_SLOT, 0, 0), o(K::Unpin, 0, 0, 0, 0)],
            _ => vec![],
        };
        t.phase = 1;
    }
    threads.push(t);
    cfg.step_cap = 1_500_000;
    RunDesc {
        prop: prop.to_string(),
        family: "agesweep".into(),
        seed,
        cfg,
        threads,
        params: J::obj().set("rounds", total).set("flush_at_round", t_f).set("stamp_at_round", t_b).set("role", ["parent-own", "child-own", "link-store", "link-swap", "both-own", "link-younger"][role as usize]).set("others_early", early),
        schedule: None,
        buggify_script: None,
    }
}
