use crate::ops::RunDesc;
pub fn gen(prop: &str, seed: u64) -> RunDesc {
    crate::gen::gen_interp_run(prop, "todo", seed, crate::gen::Profile::Mixed)
}
