//! Seeded generation of run descriptions (swarm style: every run draws its own op mix, sizes,
//! knobs, scheduler strategy and fault set).

use circ::verif::site;

use crate::json::J;
use crate::ops::*;
use crate::rng::Rng;

#[derive(Clone, Copy, PartialEq, Eq, Debug)]
pub enum Profile {
    Mixed,
    Weak,
    Cells,
    WCells,
    Bulk,
    Ebr,
    Guards,
    Tls,
}

struct Occ {
    iter: [bool; 2],
    rc: [bool; NRC],
    weak: [bool; NWEAK],
    guard: [bool; NGUARD],
    snap: [Option<usize>; NSNAP],
    wsnap: [Option<usize>; NWSNAP],
}

impl Occ {
    fn new() -> Self {
        Occ { iter: [false; 2], rc: [false; NRC], weak: [false; NWEAK], guard: [false; NGUARD], snap: [None; NSNAP], wsnap: [None; NWSNAP] }
    }
    fn pick(rng: &mut Rng, xs: &[bool], want: bool) -> Option<usize> {
        let c: Vec<usize> = (0..xs.len()).filter(|&i| xs[i] == want).collect();
        if c.is_empty() {
            None
        } else {
            Some(c[rng.below(c.len() as u64) as usize])
        }
    }
    fn live_guard(&self, rng: &mut Rng) -> Option<usize> {
        Self::pick(rng, &self.guard, true)
    }
    fn live_snap(&self, rng: &mut Rng) -> Option<usize> {
        let c: Vec<usize> = (0..NSNAP).filter(|&i| matches!(self.snap[i], Some(g) if self.guard[g])).collect();
        if c.is_empty() {
            None
        } else {
            Some(c[rng.below(c.len() as u64) as usize])
        }
    }
    fn live_wsnap(&self, rng: &mut Rng) -> Option<usize> {
        let c: Vec<usize> = (0..NWSNAP).filter(|&i| matches!(self.wsnap[i], Some(g) if self.guard[g])).collect();
        if c.is_empty() {
            None
        } else {
            Some(c[rng.below(c.len() as u64) as usize])
        }
    }
    fn kill_guard(&mut self, g: usize) {
        for s in self.snap.iter_mut() {
            if *s == Some(g) {
                *s = None;
            }
        }
        for s in self.wsnap.iter_mut() {
            if *s == Some(g) {
                *s = None;
            }
        }
    }
}

fn weights(p: Profile, rng: &mut Rng) -> Vec<(K, u32)> {
    use K::*;
    let base: Vec<(K, u32)> = match p {
        Profile::Mixed => vec![
            (Pin, 8), (Unpin, 6), (Reactivate, 1), (ReactAfter, 1), (PanicCs, 1), (Flush, 3),
            (New, 10), (NewMany, 1), (NewIter, 1), (IterOpen, 1), (IterNext, 1), (IterClose, 1), (Clone, 5), (DropRc, 8), (Finalize, 2), (Downgrade, 3), (WeakMany, 1), (SnapOf, 2), (RcTag, 1), (DerefRc, 2),
            (Counted, 4), (SnapDown, 1), (SnapTag, 1), (DerefSnap, 4),
            (Load, 10), (Store, 8), (Swap, 4), (Cas, 5), (CasTag, 1),
            (CloneW, 1), (DropW, 2), (Upgrade, 3), (WSnapOf, 1), (WsCounted, 1), (WsUpgrade, 2),
            (LoadW, 2), (StoreW, 2), (SwapW, 1), (CasW, 1),
        ],
        Profile::Weak => vec![
            (Pin, 8), (Unpin, 6), (Flush, 3), (Reactivate, 1),
            (New, 8), (Clone, 2), (DropRc, 8), (Downgrade, 8), (WeakMany, 2), (DerefRc, 1),
            (Counted, 2), (SnapDown, 3), (DerefSnap, 2),
            (Load, 5), (Store, 5), (Swap, 2), (Cas, 1),
            (CloneW, 4), (DropW, 6), (Upgrade, 8), (WSnapOf, 5), (WTag, 1), (WsCounted, 5), (WsUpgrade, 8), (WsTag, 1),
            (LoadW, 6), (StoreW, 6), (SwapW, 3), (CasW, 3), (CasTagW, 1),
        ],
        Profile::Cells => vec![
            (Pin, 4), (Unpin, 2), (New, 6), (Clone, 2), (DropRc, 2), (RcTag, 3), (SnapTag, 2), (SnapOf, 2),
            (Load, 10), (Store, 8), (Swap, 8), (Cas, 14), (CasTag, 5), (Flush, 1),
        ],
        Profile::WCells => vec![
            (Pin, 4), (Unpin, 2), (New, 5), (DropRc, 2), (Downgrade, 8), (WTag, 3), (WsTag, 2), (WSnapOf, 4), (SnapDown, 3), (Load, 3), (Store, 3), (CloneW, 2), (DropW, 2),
            (LoadW, 10), (StoreW, 8), (SwapW, 8), (CasW, 14), (CasTagW, 5), (Flush, 1),
        ],
        Profile::Bulk => vec![
            (Pin, 5), (Unpin, 4), (Flush, 2), (PanicCs, 2), (New, 3), (NewMany, 8), (NewIter, 6), (IterOpen, 5), (IterNext, 5), (IterClose, 5), (WeakMany, 8), (Clone, 2), (DropRc, 10), (Finalize, 3), (Downgrade, 2), (WTag, 2), (CloneW, 1), (DropW, 6), (Upgrade, 4),
            (Load, 3), (Store, 5), (Swap, 3), (DerefRc, 2), (StoreW, 2),
        ],
        Profile::Ebr => vec![
            (Pin, 10), (Unpin, 9), (Reactivate, 3), (ReactAfter, 3), (PanicCs, 2), (Flush, 6), (Defer, 14), (TryAdvance, 4), (Collect, 2), (New, 2), (DropRc, 2), (Store, 1),
        ],
        Profile::Guards => vec![
            (Pin, 12), (Unpin, 10), (Reactivate, 8), (ReactAfter, 8), (PanicCs, 2), (Flush, 4), (Defer, 3), (New, 3), (DropRc, 3), (Store, 2), (Load, 2), (TryAdvance, 1),
        ],
        Profile::Tls => vec![
            (Pin, 6), (Unpin, 4), (Flush, 3), (Reactivate, 2), (ReactAfter, 2), (PanicCs, 1), (Defer, 4), (TryAdvance, 1), (New, 8), (Clone, 2), (DropRc, 3), (Downgrade, 2), (DropW, 1), (Store, 5), (Load, 3), (Swap, 2), (Upgrade, 1), (StoreW, 1),
        ],
    };
    // swarm: drop a random subset of the optional kinds, jitter the rest
    let mut out = Vec::new();
    for (k, w) in base {
        let essential = matches!(k, Pin | Unpin | New | DropRc);
        if !essential && rng.chance(0.2) {
            continue;
        }
        let f = 1 + rng.below(3) as u32;
        out.push((k, w * f));
    }
    out
}

fn gen_cell(rng: &mut Rng, occ: &Occ, roots: u32, p_root: f64) -> u32 {
    if !rng.chance(p_root) {
        if rng.chance(0.5) {
            if let Some(s) = Occ::pick(rng, &occ.rc, true) {
                return 100 + s as u32 * 10 + rng.below(2) as u32;
            }
        }
        if let Some(s) = occ.live_snap(rng) {
            return 200 + s as u32 * 10 + rng.below(2) as u32;
        }
    }
    rng.below(roots as u64) as u32 * 10
}

fn gen_wcell(rng: &mut Rng, occ: &Occ, wroots: u32, p_root: f64) -> u32 {
    if !rng.chance(p_root) {
        if rng.chance(0.5) {
            if let Some(s) = Occ::pick(rng, &occ.rc, true) {
                return 100 + s as u32 * 10;
            }
        }
        if let Some(s) = occ.live_snap(rng) {
            return 200 + s as u32 * 10;
        }
    }
    rng.below(wroots as u64) as u32 * 10
}

/// Generate `n` ops for one thread.
pub fn gen_ops(rng: &mut Rng, p: Profile, n: usize, roots: u32, wroots: u32) -> Vec<Op> {
    gen_ops_from(rng, p, n, roots, wroots, Occ::new())
}

fn gen_ops_from(rng: &mut Rng, p: Profile, n: usize, roots: u32, wroots: u32, mut occ: Occ) -> Vec<Op> {
    let w = weights(p, rng);
    let kinds: Vec<K> = w.iter().map(|x| x.0).collect();
    let ws: Vec<u32> = w.iter().map(|x| x.1).collect();
    let mut out = Vec::new();
    let p_root = match p {
        Profile::Cells | Profile::WCells => 0.9,
        _ => 0.5,
    };
    let mut tries = 0;
    while out.len() < n && tries < n * 20 {
        tries += 1;
        let k = kinds[rng.weighted(&ws)];
        let tagi = rng.below(TAGS.len() as u64) as u32;
        let o = match k {
            K::Pin => Occ::pick(rng, &occ.guard, false).map(|g| {
                occ.guard[g] = true;
                op(K::Pin, g as u32, 0, 0, 0)
            }),
            K::Unpin => occ.live_guard(rng).map(|g| {
                occ.guard[g] = false;
                occ.kill_guard(g);
                op(K::Unpin, g as u32, 0, 0, 0)
            }),
            K::Reactivate => occ.live_guard(rng).map(|g| {
                occ.kill_guard(g);
                op(K::Reactivate, g as u32, 0, 0, 0)
            }),
            K::ReactAfter => occ.live_guard(rng).map(|g| {
                occ.kill_guard(g);
                op(K::ReactAfter, g as u32, rng.below(4) as u32, 0, 0)
            }),
            K::Flush => occ.live_guard(rng).map(|g| op(K::Flush, g as u32, 0, 0, 0)),
            K::PanicCs => Some(op(K::PanicCs, rng.below(4) as u32, rng.below(10) as u32, 0, 0)),
            K::New => Occ::pick(rng, &occ.rc, false).map(|d| {
                let extra = if rng.chance(0.2) { Occ::pick(rng, &occ.rc, true).map(|x| x as u32).unwrap_or(NONE_SLOT) } else { NONE_SLOT };
                // a field initialised through one of the conversion impls instead of the plain-Rc field
                let conv = if extra != NONE_SLOT && rng.chance(0.4) { 1 + rng.below(4) as u32 } else { 0 };
                occ.rc[d] = true;
                // or: weak field filled from a Weak slot (get_mut on the private node / From<Weak>)
                let from_weak = if conv == 0 && rng.chance(0.08) { Occ::pick(rng, &occ.weak, true) } else { None };
                match from_weak {
                    Some(w) => op(K::New, d as u32, w as u32, 0, 5 + rng.below(2) as u32),
                    None => op(K::New, d as u32, extra, 0, conv),
                }
            }),
            K::NewMany => {
                let n = rng.below(5) as u32;
                let cnt = [0usize, 1, 2, 3, 8][n as usize];
                let mut left = cnt;
                for i in 0..NRC {
                    if left > 0 && !occ.rc[i] {
                        occ.rc[i] = true;
                        left -= 1;
                    }
                }
                Some(op(K::NewMany, n, 0, 0, 0))
            }
            K::NewIter => {
                let ci = rng.below(7) as u32;
                let cnt = [0usize, 1, 2, 3, 5, 8, 17][ci as usize];
                let take = rng.below(cnt as u64 + 2) as usize;
                let mut left = take.min(cnt);
                for i in 0..NRC {
                    if left > 0 && !occ.rc[i] {
                        occ.rc[i] = true;
                        left -= 1;
                    }
                }
                let (abort, g) = match occ.live_guard(rng) {
                    Some(g) if rng.chance(0.5) => (1, g as u32),
                    _ => (0, 0),
                };
                // bits 1-2: nth(1) / nth(count) / step_by(2) over the shares not taken one by one
                let skip = if rng.chance(0.35) { 1 + rng.below(3) as u32 } else { 0 };
                Some(op(K::NewIter, ci, take as u32, abort | (skip << 1), g))
            }
            K::IterOpen => match (0..2).find(|&i| !occ.iter[i]) {
                Some(slot) => {
                    let ci = rng.below(5) as u32;
                    let cnt = [1usize, 2, 3, 5, 8][ci as usize];
                    let take = rng.below(cnt as u64) as usize;
                    let mut left = take;
                    for i in 0..NRC {
                        if left > 0 && !occ.rc[i] {
                            occ.rc[i] = true;
                            left -= 1;
                        }
                    }
                    occ.iter[slot] = true;
                    Some(op(K::IterOpen, ci, take as u32, slot as u32, 0))
                }
                None => None,
            },
            K::IterNext => (0..2).find(|&i| occ.iter[i]).map(|slot| {
                if let Some(f) = Occ::pick(rng, &occ.rc, false) {
                    occ.rc[f] = true;
                }
                op(K::IterNext, slot as u32, 0, 0, 0)
            }),
            K::IterClose => (0..2).find(|&i| occ.iter[i]).map(|slot| {
                occ.iter[slot] = false;
                let (abort, g) = match occ.live_guard(rng) {
                    Some(g) if rng.chance(0.5) => (1, g as u32),
                    _ => (0, 0),
                };
                op(K::IterClose, slot as u32, abort, g, 0)
            }),
            K::Clone => match (Occ::pick(rng, &occ.rc, true), Occ::pick(rng, &occ.rc, false)) {
                (Some(s), Some(d)) => {
                    occ.rc[d] = true;
                    Some(op(K::Clone, s as u32, d as u32, 0, 0))
                }
                _ => None,
            },
            K::DropRc => Occ::pick(rng, &occ.rc, true).map(|s| {
                occ.rc[s] = false;
                op(K::DropRc, s as u32, 0, 0, 0)
            }),
            K::Finalize => match (Occ::pick(rng, &occ.rc, true), occ.live_guard(rng)) {
                (Some(s), Some(g)) => {
                    occ.rc[s] = false;
                    Some(op(K::Finalize, s as u32, g as u32, 0, 0))
                }
                _ => None,
            },
            K::Downgrade => match (Occ::pick(rng, &occ.rc, true), Occ::pick(rng, &occ.weak, false)) {
                (Some(s), Some(d)) => {
                    occ.weak[d] = true;
                    let g = occ.guard.iter().position(|&x| x);
                    let via_snapshot = g.is_some() && rng.chance(0.2);
                    Some(op(K::Downgrade, s as u32, d as u32, g.unwrap_or(0) as u32, via_snapshot as u32))
                }
                _ => None,
            },
            K::WeakMany => Occ::pick(rng, &occ.rc, true).map(|s| {
                let n = rng.below(7) as u32;
                let mut left = [0u32, 1, 2, 3, 8, 9, 16][n as usize];
                for i in 0..NWEAK {
                    if left > 0 && !occ.weak[i] {
                        occ.weak[i] = true;
                        left -= 1;
                    }
                }
                op(K::WeakMany, s as u32, n, 0, 0)
            }),
            K::SnapOf => match (Occ::pick(rng, &occ.rc, true), occ.live_guard(rng)) {
                (Some(s), Some(g)) => {
                    let d = rng.below(NSNAP as u64) as usize;
                    occ.snap[d] = Some(g);
                    Some(op(K::SnapOf, s as u32, g as u32, d as u32, 0))
                }
                _ => None,
            },
            K::RcTag => Occ::pick(rng, &occ.rc, true).map(|s| op(K::RcTag, s as u32, tagi, 0, 0)),
            K::DerefRc => Occ::pick(rng, &occ.rc, true).map(|s| op(K::DerefRc, s as u32, 0, 0, 0)),
            K::Counted => match (occ.live_snap(rng), Occ::pick(rng, &occ.rc, false)) {
                (Some(s), Some(d)) => {
                    occ.rc[d] = true;
                    Some(op(K::Counted, s as u32, d as u32, 0, rng.chance(0.3) as u32))
                }
                _ => None,
            },
            K::SnapDown => occ.live_snap(rng).map(|s| {
                let d = rng.below(NWSNAP as u64) as usize;
                occ.wsnap[d] = occ.snap[s];
                op(K::SnapDown, s as u32, d as u32, 0, rng.chance(0.3) as u32)
            }),
            K::SnapTag => occ.live_snap(rng).map(|s| op(K::SnapTag, s as u32, tagi, 0, 0)),
            K::DerefSnap => occ.live_snap(rng).map(|s| op(K::DerefSnap, s as u32, 0, 0, 0)),
            K::Load => occ.live_guard(rng).map(|g| {
                let d = rng.below(NSNAP as u64) as usize;
                let c = gen_cell(rng, &occ, roots, p_root);
                occ.snap[d] = Some(g);
                op(K::Load, c, g as u32, d as u32, 0)
            }),
            K::Store => occ.live_guard(rng).map(|g| {
                let c = gen_cell(rng, &occ, roots, p_root);
                let s = if rng.chance(0.85) { Occ::pick(rng, &occ.rc, true) } else { None };
                if let Some(s) = s {
                    occ.rc[s] = false;
                }
                op(K::Store, c, s.map(|x| x as u32).unwrap_or(NONE_SLOT), g as u32, 0)
            }),
            K::Swap => {
                let c = gen_cell(rng, &occ, roots, p_root);
                let s = match Occ::pick(rng, &occ.rc, true) {
                    Some(s) if rng.chance(0.8) => s,
                    _ => Occ::pick(rng, &occ.rc, false).unwrap_or(0),
                };
                occ.rc[s] = true;
                Some(op(K::Swap, c, s as u32, 0, 0))
            }
            K::Cas => {
                if occ.live_guard(rng).is_none() {
                    None
                } else {
                    let c = gen_cell(rng, &occ, roots, p_root);
                    let e = occ.live_snap(rng).map(|x| x as u32).unwrap_or(NONE_SLOT);
                    let s = match Occ::pick(rng, &occ.rc, true) {
                        Some(s) if rng.chance(0.85) => s,
                        _ => Occ::pick(rng, &occ.rc, false).unwrap_or(0),
                    };
                    occ.rc[s] = true;
                    Some(op(K::Cas, c, e, s as u32, rng.chance(0.4) as u32))
                }
            }
            K::CasTag => occ.live_snap(rng).map(|e| op(K::CasTag, gen_cell(rng, &occ, roots, p_root), e as u32, tagi, 0)),
            K::CloneW => match (Occ::pick(rng, &occ.weak, true), Occ::pick(rng, &occ.weak, false)) {
                (Some(s), Some(d)) => {
                    occ.weak[d] = true;
                    Some(op(K::CloneW, s as u32, d as u32, 0, 0))
                }
                _ => None,
            },
            K::DropW => Occ::pick(rng, &occ.weak, true).map(|s| {
                occ.weak[s] = false;
                op(K::DropW, s as u32, 0, 0, 0)
            }),
            K::Upgrade => match (Occ::pick(rng, &occ.weak, true), Occ::pick(rng, &occ.rc, false)) {
                (Some(s), Some(d)) => {
                    occ.rc[d] = true;
                    Some(op(K::Upgrade, s as u32, d as u32, 0, 0))
                }
                _ => None,
            },
            K::WSnapOf => match (Occ::pick(rng, &occ.weak, true), occ.live_guard(rng)) {
                (Some(s), Some(g)) => {
                    let d = rng.below(NWSNAP as u64) as usize;
                    occ.wsnap[d] = Some(g);
                    Some(op(K::WSnapOf, s as u32, g as u32, d as u32, 0))
                }
                _ => None,
            },
            K::WTag => Occ::pick(rng, &occ.weak, true).map(|s| op(K::WTag, s as u32, tagi, 0, 0)),
            K::WsTag => occ.live_wsnap(rng).map(|s| op(K::WsTag, s as u32, tagi, 0, 0)),
            K::WsCounted => match (occ.live_wsnap(rng), Occ::pick(rng, &occ.weak, false)) {
                (Some(s), Some(d)) => {
                    occ.weak[d] = true;
                    Some(op(K::WsCounted, s as u32, d as u32, 0, rng.chance(0.3) as u32))
                }
                _ => None,
            },
            K::WsUpgrade => occ.live_wsnap(rng).map(|s| {
                let d = rng.below(NSNAP as u64) as usize;
                occ.snap[d] = occ.wsnap[s];
                op(K::WsUpgrade, s as u32, d as u32, 0, 0)
            }),
            K::LoadW => occ.live_guard(rng).map(|g| {
                let d = rng.below(NWSNAP as u64) as usize;
                occ.wsnap[d] = Some(g);
                op(K::LoadW, gen_wcell(rng, &occ, wroots, p_root), g as u32, d as u32, 0)
            }),
            K::StoreW => occ.live_guard(rng).map(|g| {
                let s = if rng.chance(0.85) { Occ::pick(rng, &occ.weak, true) } else { None };
                if let Some(s) = s {
                    occ.weak[s] = false;
                }
                op(K::StoreW, gen_wcell(rng, &occ, wroots, p_root), s.map(|x| x as u32).unwrap_or(NONE_SLOT), g as u32, 0)
            }),
            K::SwapW => {
                let s = match Occ::pick(rng, &occ.weak, true) {
                    Some(s) if rng.chance(0.8) => s,
                    _ => Occ::pick(rng, &occ.weak, false).unwrap_or(0),
                };
                occ.weak[s] = true;
                Some(op(K::SwapW, gen_wcell(rng, &occ, wroots, p_root), s as u32, 0, 0))
            }
            K::CasW => {
                if occ.live_guard(rng).is_none() {
                    None
                } else {
                    let e = occ.live_wsnap(rng).map(|x| x as u32).unwrap_or(NONE_SLOT);
                    let s = match Occ::pick(rng, &occ.weak, true) {
                        Some(s) if rng.chance(0.85) => s,
                        _ => Occ::pick(rng, &occ.weak, false).unwrap_or(0),
                    };
                    occ.weak[s] = true;
                    Some(op(K::CasW, gen_wcell(rng, &occ, wroots, p_root), e, s as u32, rng.chance(0.4) as u32))
                }
            }
            K::CasTagW => occ.live_wsnap(rng).map(|e| op(K::CasTagW, gen_wcell(rng, &occ, wroots, p_root), e as u32, tagi, 0)),
            K::Defer => occ.live_guard(rng).map(|g| op(K::Defer, g as u32, rng.below(crate::closures::NSHAPES as u64) as u32, if rng.chance(0.25) { 1 + rng.below(3) as u32 } else { 0 }, 0)),
            K::TryAdvance => occ.live_guard(rng).map(|g| op(K::TryAdvance, g as u32, 0, 0, 0)),
            K::Collect => occ.live_guard(rng).map(|g| op(K::Collect, g as u32, 0, 0, 0)),
            K::Nop | K::Signal | K::Await | K::TlsInit | K::CheckDeferred | K::QPush | K::QPop | K::QPopIf | K::LIns | K::LDel | K::LTrav => None,
        };
        if let Some(o) = o {
            out.push(o);
        }
    }
    out
}

pub fn ticker_ops(m: usize) -> Vec<Op> {
    let mut v = Vec::new();
    for _ in 0..m {
        v.push(op(K::Pin, 0, 0, 0, 0));
        v.push(op(K::Flush, 0, 0, 0, 0));
        v.push(op(K::Unpin, 0, 0, 0, 0));
    }
    v
}

pub const STALL_KS: [u64; 10] = [1, 2, 3, 4, 5, 8, 15, 16, 17, 33];

pub fn hot_classes() -> Vec<Vec<u32>> {
    vec![
        vec![site::INC_STRONG_FA1, site::INC_STRONG_FA2],
        vec![site::DEC_STRONG_LOAD, site::DEC_STRONG_CAS],
        vec![site::EPOCH_LOAD, site::EPOCH_CAS, site::EPOCH_STORE],
        vec![site::DISPOSE_LOAD, site::DISPOSE_CHILD_LOAD, site::DISPOSE_CHILD_CAS, site::DISPOSE_WEAKED_LOAD],
        vec![site::TRY_DESTRUCT_LOAD, site::TRY_DESTRUCT_CAS, site::NOT_DESTRUCTED_LOAD, site::NOT_DESTRUCTED_CAS],
        vec![site::INC_WEAK_LOAD, site::INC_WEAK_CAS, site::INC_WEAK_FA1, site::INC_WEAK_FA2, site::DEC_WEAK_FS, site::TRY_DEALLOC_LOAD],
        vec![site::ARC_LOAD, site::ARC_STORE_SWAP, site::ARC_SWAP, site::ARC_CAS, site::ARC_CAS_WEAK, site::ARC_CAS_TAG],
        vec![site::AW_LOAD, site::AW_STORE_SWAP, site::AW_SWAP, site::AW_CAS, site::AW_CAS_WEAK, site::AW_CAS_TAG],
        vec![site::RAW_LOAD, site::RAW_STORE, site::RAW_CAS, site::RAW_CAS_WEAK, site::RAW_FETCH_OR],
        vec![crate::sched::SITE_USER, crate::sched::SITE_INNER],
        vec![site::AUTO],
    ]
}

/// Draw scheduler strategy, stall fault, knobs and epoch alignment.
pub fn swarm_cfg(rng: &mut Rng, cfg: &mut RunCfg, nthreads: usize, allow_stall: bool) {
    cfg.max_objects = *rng.pick(&[2u32, 3, 4, 8, 64]);
    cfg.manual_interval = *rng.pick(&[1u32, 2, 3, 5, 8, 64]);
    cfg.start_epoch = match rng.below(10) {
        0 => rng.below(4),
        1 => (1u64 << 20) + rng.below(16),
        2 => (1u64 << 40) + rng.below(16),
        _ => rng.below(64),
    };
    cfg.strategy = rng.below(3) as u32;
    cfg.p_switch = *rng.pick(&[0.02, 0.1, 0.3, 0.7]);
    cfg.pct_depth = 1 + rng.below(5) as u32;
    let classes = hot_classes();
    let mut mask = 0u64;
    for i in 0..classes.len() {
        if rng.chance(0.25) {
            mask |= 1 << i;
        }
    }
    if mask == 0 {
        mask = 1 << rng.below(classes.len() as u64);
    }
    cfg.hot_mask = mask;
    cfg.stall = None;
    if allow_stall && rng.chance(0.35) && nthreads > 1 {
        let sites = [
            crate::sched::NSITES as u32,
            crate::sched::NSITES as u32,
            site::DEC_STRONG_LOAD,
            site::DEC_STRONG_CAS,
            site::INC_STRONG_FA2,
            site::EPOCH_LOAD,
            site::EPOCH_CAS,
            site::ARC_STORE_SWAP,
            site::DISPOSE_CHILD_CAS,
            site::NOT_DESTRUCTED_CAS,
            crate::sched::SITE_USER,
        ];
        cfg.stall = Some(StallCfg { victim: rng.below(nthreads as u64) as u32, site: *rng.pick(&sites), nth: 1 + rng.below(12) as u32, k: *rng.pick(&STALL_KS), release_signal: 0 });
    }
    cfg.buggify_p = if rng.chance(0.3) { 0.25 } else { 0.0 };
    cfg.pop_policy = match rng.below(10) {
        0 => 1,
        1 => 2,
        _ => 0,
    };
    cfg.dtor_api = match rng.below(9) {
        0 => 1,
        1 => 2,
        2 => 3,
        _ => 0,
    };
    cfg.align = if rng.chance(0.3) { 32 } else { 8 };
    cfg.ord_mode = if rng.chance(0.5) { 0 } else { 1 + rng.below(3) as u32 };
}

/// Thorough tier: larger programs, more threads, bigger structures (set once per process by
/// the check driver; a run description still records everything it needs to replay).
pub static DEEP: std::sync::atomic::AtomicBool = std::sync::atomic::AtomicBool::new(false);
pub fn deep() -> bool {
    DEEP.load(std::sync::atomic::Ordering::Relaxed)
}

pub fn gen_interp_run(prop: &str, family: &str, seed: u64, profile: Profile) -> RunDesc {
    let mut rng = Rng::new(seed);
    let mut cfg = RunCfg::default();
    let big = deep() && rng.chance(0.5);
    let nworkers = match profile {
        Profile::Cells | Profile::WCells => 2 + rng.below(if big { 3 } else { 2 }) as usize,
        _ => 2 + rng.below(if big { 5 } else { 3 }) as usize,
    };
    let ntick = match profile {
        Profile::Cells | Profile::WCells => rng.below(2) as usize,
        _ => rng.below(3) as usize,
    };
    swarm_cfg(&mut rng, &mut cfg, nworkers, true);
    cfg.roots = 1 + rng.below(3) as u32;
    cfg.wroots = 1 + rng.below(2) as u32;
    let mut threads = Vec::new();
    match profile {
        Profile::Cells | Profile::WCells => {
            cfg.lin = 1;
            cfg.roots = 1 + rng.below(2) as u32;
            cfg.wroots = 1 + rng.below(2) as u32;
            // keep histories short: the linearizability check is exponential in overlap
            let total = 8 + rng.below(if big { 16 } else { 10 }) as usize;
            for i in 0..nworkers {
                let n = total / nworkers + if i == 0 { total % nworkers } else { 0 };
                let mut ops = vec![op(K::Pin, 0, 0, 0, 0), op(K::New, 0, NONE_SLOT, 0, 0)];
                if profile == Profile::WCells {
                    ops.push(op(K::Downgrade, 0, 0, 0, 0));
                }
                let mut occ = Occ::new();
                occ.guard[0] = true;
                occ.rc[0] = true;
                occ.weak[0] = profile == Profile::WCells;
                ops.extend(gen_ops_from(&mut rng, profile, n + 3, cfg.roots, cfg.wroots, occ));
                threads.push(ThreadProg::new(0, ops));
            }
        }
        _ => {
            for _ in 0..nworkers {
                let n = 5 + rng.below(if big { 90 } else { 36 }) as usize;
                let mut t = ThreadProg::new(0, gen_ops(&mut rng, profile, n, cfg.roots, cfg.wroots));
                if profile == Profile::Tls || rng.chance(0.1) {
                    t.tls_mode = 1 + rng.below(2) as u32;
                    t.exit_mode = rng.below(2) as u32;
                    let m = rng.below(8) as usize;
                    t.tls_ops = gen_ops(&mut rng, Profile::Tls, m, cfg.roots, cfg.wroots);
                }
                threads.push(t);
            }
        }
    }
    for _ in 0..ntick {
        let mut t = ThreadProg::new(0, ticker_ops(3 + rng.below(18) as usize));
        t.name = "ticker".into();
        threads.push(t);
    }
    if let Some(s) = cfg.stall.as_mut() {
        s.victim = rng.below(nworkers as u64) as u32;
    }
    RunDesc { prop: prop.to_string(), family: family.to_string(), seed, cfg, threads, params: J::Null, schedule: None, buggify_script: None }
}


/// Family dispatch: a run description is a pure function of (property, family, seed).
pub fn generate(prop: &str, family: &str, seed: u64) -> RunDesc {
    let mut d = match family {
        "rc-mixed" => gen_interp_run(prop, family, seed, Profile::Mixed),
        "rc-weak" => gen_interp_run(prop, family, seed, Profile::Weak),
        "rc-cells" => gen_interp_run(prop, family, seed, Profile::Cells),
        "rc-wcells" => gen_interp_run(prop, family, seed, Profile::WCells),
        "rc-bulk" => gen_interp_run(prop, family, seed, Profile::Bulk),
        "ebr" => gen_interp_run(prop, family, seed, Profile::Ebr),
        "ebr-churn" => crate::fam_ebr::gen_churn(prop, seed),
        "ebr-longcs" => crate::fam_ebr::gen_longcs(prop, seed),
        "ebr-private" => crate::fam_ebr::gen_private(prop, seed),
        "guards" => gen_interp_run(prop, family, seed, Profile::Guards),
        "tls" => gen_interp_run(prop, family, seed, Profile::Tls),
        "dir-t1" => crate::dir::t1(prop, seed),
        "dir-t2" => crate::dir::t2(prop, seed),
        "dir-t3" => crate::dir::t3(prop, seed),
        "dir-t4" => crate::dir::t4(prop, seed),
        "dir-t5" => crate::dir::t5(prop, seed),
        "dir-t6" => crate::dir::t6(prop, seed),
        "dir-t7" => crate::dir::t7(prop, seed),
        "dir-t8" => crate::dir::t8(prop, seed),
        "dir-t9" => crate::dir::t9(prop, seed),
        "dir-t10" => crate::dir::t10(prop, seed),
        "dir-t11" => crate::dir::t11(prop, seed),
        "dir-t12" => crate::dir::t12(prop, seed),
        "dir-t13" => crate::dir::t13(prop, seed),
        "dir-b" => crate::dir::b(prop, seed),
        "dir-t14" => crate::dir::t14(prop, seed),
        "dir-t15" => crate::dir::t15(prop, seed),
        "dir-t16" => crate::dir::t16(prop, seed),
        "dir-t17" => crate::dir::t17(prop, seed),
        "dir-t18" => crate::dir::t18(prop, seed),
        "dir-t19" => crate::dir::t19(prop, seed),
        "dir-w" => crate::dir::w(prop, seed),
        "dir-c" => crate::dir::c(prop, seed),
        "client" => crate::fam_client::gen(prop, seed),
        "queue" => crate::fam_queue::gen(prop, seed),
        "list" => crate::fam_list::gen(prop, seed),
        "chain" => crate::fam_chain::gen(prop, seed, false),
        "chain-stack" => crate::fam_chain::gen(prop, seed, true),
        "chain-weak" => crate::fam_chain::gen_weak(prop, seed),
        "chain-mid" => crate::fam_chain::gen_mid(prop, seed),
        "agesweep" => crate::fam_sweep::gen(prop, seed),
        _ => gen_interp_run(prop, family, seed, Profile::Mixed),
    };
    d.family = family.to_string();
    d
}
