#!/bin/bash
# usage: confirm_mutant.sh <dir with patch.diff + demo.rs|demo.diff> <name>
# Confirms in a scratch worktree: patch applies, builds, existing suite passes (2x), demo fails with it and passes without.
D="$1"; NAME="$2"; W=/tmp/confirm-$NAME
rm -rf "$W"; git -C /repo worktree add -q --detach "$W" HEAD || exit 2
cd "$W" || exit 2
export CARGO_TARGET_DIR="$W/target" CARGO_NET_OFFLINE=true
res() { echo "$NAME: $1"; }
git apply "$D/patch.diff" || { res "PATCH-DOES-NOT-APPLY"; git -C /repo worktree remove --force "$W"; exit 1; }
S1=$(cargo test --workspace --no-fail-fast --offline 2>&1 | grep -E "^test result" | awk '{p+=$4; f+=$6} END {print p"/"f}')
S2=$(cargo test --workspace --no-fail-fast --offline 2>&1 | grep -E "^test result" | awk '{p+=$4; f+=$6} END {print p"/"f}')
# demo
if [ -f "$D/demo.rs" ]; then cp "$D/demo.rs" tests/zz_demo.rs; DEMO="--test zz_demo"; else git apply "$D/demo.diff" || { res "DEMO-DIFF-DOES-NOT-APPLY suite=$S1,$S2"; git -C /repo worktree remove --force "$W"; exit 1; }; DEMO="--lib"; fi
FAILS=0; for i in 1 2 3; do cargo test --offline $DEMO >/tmp/confirm-$NAME.with.log 2>&1 || FAILS=$((FAILS+1)); done
# revert only the source patch
git apply -R "$D/patch.diff" || { res "CANNOT-REVERT"; exit 1; }
PASSES=0; for i in 1 2 3; do cargo test --offline $DEMO >/tmp/confirm-$NAME.without.log 2>&1 && PASSES=$((PASSES+1)); done
res "suite_with_mutant(pass/fail)=$S1,$S2 demo_fails_with=$FAILS/3 demo_passes_without=$PASSES/3"
cd /; git -C /repo worktree remove --force "$W"
